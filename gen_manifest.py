#!/usr/bin/env python3
"""Writes /verif/MANIFEST.json from the table below (kept in one place so the
manifest is always valid)."""
import json, subprocess

CLAIMED = {
 # id: (engine, technique, level category, level text, design ref, level note)
 "C01": ("S", "deterministic simulation: seeded scenarios (requests x cut/refuse/dial faults) on ReconnectClient, liveness oracle at quiescent-complete", "exploration",
         "seeded search over request histories and fault sequences addressed to specific packets of specific connections; every accepted QoS>=1 publish/subscribe/unsubscribe must have its acknowledgement delivered on some connection once faults stop", "7/C01"),
 "C02": ("S", "deterministic simulation: QoS 2 workloads against a session-keeping broker model (receiver methods A and B) with cuts around every packet of the exchange", "exploration",
         "onward-delivery count per message is checked at every step (never 2) and at quiescent-complete (exactly 1); nothing is transmitted for a message after its PUBCOMP", "7/C02"),
 "C03": ("S", "deterministic simulation: wire-order oracle over every connection of runs with cuts/refusals/dial errors", "exploration",
         "per-connection PUBLISH order, first-transmission order and onward first-delivery order are compared with the submission order of one submitting actor", "7/C03"),
 "C04": ("S", "deterministic simulation: scripted broker -> BaseClient inbound flows with fragmentation, slow handlers and failing ack writes; expected hand-over/ack timeline derived from the arrival sequence", "exploration",
         "the exact sequence of hand-overs, handler returns and acknowledgement writes is compared with the sequence the arrival order owes", "7/C04"),
 "C06": ("S", "deterministic simulation with corrupting/truncating broker stream (byte-level fragmentation, EOF at any byte, hostile length fields); process death attributed by the driver", "exploration",
         "no panic, no read request beyond the protocol maximum, definitely-malformed classes end the link with Err()/Done()/Closed, well-formed prefix has its effect; gray inputs only panic/alloc", "7/C06"),
 "C07": ("S", "deterministic simulation: N blocked callers, broker answers withheld and released in seeded permutations with forged/foreign acknowledgements", "exploration",
         "history oracle (invoke / ack delivery / return by event number): early, late, disturbed, suback", "7/C07"),
 "C08": ("S", "deterministic simulation: Subscribe/Unsubscribe histories x cuts x session loss x AlwaysResubscribe; broker table vs reference map at quiescent-complete", "exploration",
         "final broker subscription table equals the net effect of accepted calls; no re-subscription on first/kept-session connections", "7/C08"),
 "C09": ("S", "deterministic simulation on the fake clock: dial log / transport log oracle for back-off lower bounds, one transport, CONNECT-first, stop on Disconnect", "exploration",
         "redial, backoff lower bound, one-transport, connect-first with the application's options, stop, disconnect-returns", "7/C09"),
 "C11": ("S", "deterministic simulation: enumerated call x step x cause matrix plus seeded multi-call scenarios; goroutine census after teardown", "fault_enumeration",
         "every (call, step, cause) cell is one scenario and all cells are run in every check, then randomised combinations; a call must return at the very fake instant of its cause", "7/C11"),
 "C12": ("S", "deterministic simulation: wire oracle per message over all Write calls of runs with cuts at every step, including the ErrorWithRetry handle on fresh BaseClients", "exploration",
         "first-dup0, re-dup1, same-fields, q0-once, no-publish-after-pubrel over every transmission attempt", "7/C12"),
 "C15": ("S", "deterministic simulation with the packet-id seam (H1): start values around wrap-around, outstanding requests withheld by the broker; full 65 535 cycle in the thorough tier", "exploration",
         "zero, unique-among-outstanding, preset-kept on the broker side", "7/C15"),
 "C19": ("S", "deterministic simulation: every error returned in the C11/C12 fault scenarios is compared with the injected cause (scope: fault-caused errors only)", "exploration",
         "sentinel, no-false-sentinel, retry-handle; the arbitrary-error-chain half of the statement is a pure function and is NOT claimed", "7/C19"),
}

CLAIMED.update({
 "C13": ("S", "deterministic simulation on the fake clock: KeepAlive against a scripted Client (answer/never/fail/slow, parent cancel at any time) plus ReconnectClient with a peer going silent at any time", "exploration",
         "cadence (exact tick times), timeout (ErrPingTimeout at ping start + timeout), ctx (context error wins), ping-error; closes-silent / only-silent on the reconnecting client", "7/C13"),
 "C16": ("S", "deterministic simulation: every way a connection can end, alone and overlapping Disconnect, on first and re-established connections; state-callback log and Err()/Done() sampled at every quiescence", "exploration",
         "active, closed (once, same error as Err()), disconnected (once, no Closed after), err-nil while healthy and after graceful Disconnect, done iff ended", "7/C16"),
 "C17": ("S", "deterministic simulation: Handle at arbitrary event boundaries, inbound PUBLISH QoS 0/1/2 glued to / right after each CONNACK across reconnects", "exploration",
         "handed-over and which-handler for every inbound message whose hand-over is owed on its connection", "7/C17"),
 "C18": ("S", "deterministic simulation on the fake clock: acknowledgements / requests silently dropped on first transmissions and on the connection of a retransmission, with ResponseTimeout configured", "exploration",
         "abandons (RequestTimeoutError via OnError within the timeout), stuck (silent connection closed eventually), kept (request finally acknowledged on a later connection)", "7/C18"),
 "C20": ("S", "deterministic simulation: mutating handlers behind ServeMux/ServeAsync parked and resumed in seeded orders, direct ServeMux.Serve callers reusing their message", "exploration",
         "equal (what each handler receives equals the message sent), private (no scribble of a sibling, a later message or the caller is ever visible)", "7/C20"),
})

CLAIMED["C10"] = ("R+S", "deterministic-simulation harness run free under the Go race detector (engine R: real parallelism, actors of one instant start together, SimConn.Write copies packets in two halves) plus the wire-framing rule on every connection of engine S runs", "exploration",
         "race(pair): race-detector reports whose racing accesses are in library code; interleaved / wire-undecodable: the transport byte stream is a concatenation of whole, strictly decodable packets", "5 and 7/C10")
CLAIMED["C15"] = ("S+R",) + CLAIMED["C15"][1:]
CLAIMED["C07"] = ("S+R", CLAIMED["C07"][1] + "; plus an engine R pass in which the first requests of one kind a client ever makes are issued by several callers at the same moment under real parallelism (a request whose own acknowledgement was delivered on a connection that stayed up has returned by the end of the run)") + CLAIMED["C07"][2:]
CLAIMED["C17"] = ("S+R",) + CLAIMED["C17"][1:]
CLAIMED["C16"] = ("S+R", CLAIMED["C16"][1] + "; plus an engine R pass in which Disconnect / Close / peer close / malformed packet of several clients race under real parallelism (callback error vs Err() at that moment and in the end, each state at most once, Done() closed)") + CLAIMED["C16"][2:]

NOT_APPLICABLE = {
 "C05": "pure function of (message, options) -> bytes; quantifier is inputs/configurations only, there is no schedule, clock, fault or interleaving for a simulator to own (DESIGN 7/C05)",
 "C14": "newTopicFilter/Match/ServeMux.Serve are pure sequential functions of (filter, topic); nothing to schedule or break (DESIGN 7/C14)",
}
PENDING = {
}

NOTE = ("trusted base: broker reference model + own codec in /verif/sim, testing/synctest (go1.26.8), determinism at GOMAXPROCS=1 "
        "(re-measured on a sample of runs by every check; mismatch = exit 2), SimConn.Write never blocks, Dialer seam replaces TCP/TLS/WebSocket dialling")

def main():
    hooks = subprocess.check_output(["git","-C","/repo","log","--format=%h","--grep","^verif hook"]).decode().split()
    m = {
     "version": 1,
     "setup_cmd": "./check setup",
     "hooks": {
       "guard": "verif",
       "enable": "go test -c -tags verif (worker built from /repo's working tree through `replace github.com/at-wat/mqtt-go => /repo` in /verif/go.mod)",
       "baseline_off_cmd": "cd /repo && GOFLAGS=-mod=mod go test -json -vet=off -count=1 -timeout 25m ./...",
       "source_commits": hooks,
       "add_only": True,
     },
     "engines": [
       {"name": "R", "path": "/verif/sim (same module, built with -race)", "serves_properties": ["C07", "C10", "C15", "C16", "C17"], "kind_free_text": "the same simulator free-running inside a synctest bubble under the Go race detector, GOMAXPROCS=8; not schedule-replayable: replay = re-execution until the same access pair is reported (<= 20 tries)"},
       {"name": "S", "path": "/verif/sim", "serves_properties": sorted(CLAIMED), "kind_free_text": "deterministic discrete-event simulator inside a testing/synctest bubble: scenario-as-data, one external event per quiescence, SimConn/SimDialer/Broker model, fake clock; real mqtt-go code incl. its goroutines"},
     ],
     "checks": [],
     "notes": "exit 0 = held on everything explored (KNOWN-FINDING lines possible), 1 = VIOLATION lines with replay files, 2 = machinery problem (build, nondeterminism, caps, hang). Replays: ./check replay <file>. Known findings: /verif/known_findings.json.",
     "not_applicable": [],
    }
    for pid in sorted(CLAIMED):
        eng, tech, cat, text, ref, = CLAIMED[pid][:5]
        m["checks"].append({
          "property_id": pid,
          "quick_cmd": "./check %s quick" % pid,
          "thorough_cmd": "./check %s thorough" % pid,
          "evidence_file": "/verif/evidence/%s.json" % pid,
          "replay_cmd_template": "./check replay {path}",
          "engine": eng,
          "level_claimed": {"category": cat, "text": text, "design_ref": "DESIGN.md section " + ref},
          "level_note": NOTE,
          "technique": tech,
        })
    for pid, why in sorted({**NOT_APPLICABLE, **PENDING}.items()):
        m["not_applicable"].append({"property_id": pid, "reason": why})
    json.dump(m, open("/verif/MANIFEST.json", "w"), indent=1)

main()
