module verif

go 1.26

require (
	github.com/anishathalye/porcupine v1.3.0
	github.com/at-wat/mqtt-go v0.0.0
	golang.org/x/net v0.33.0
)

replace github.com/at-wat/mqtt-go => /repo
