#!/usr/bin/env python3
"""Rewrites section 11 of DESIGN.md from /verif/seeded/*/meta.json."""
import json, glob, os, re
rows=[]
for d in sorted(glob.glob('/verif/seeded/*')):
    m=json.load(open(d+'/meta.json'))
    rows.append((os.path.basename(d), m['breaks'], m['status'], m['caught_by_rules'], m['needs_to_manifest']))
tbl="| seeded change | breaks | result | rules that fire | what it needs in order to manifest |\n|---|---|---|---|---|\n"
for r in rows:
    tbl+="| `seeded/%s` | %s | %s | %s | %s |\n"%r
n=len(rows); first=sum(1 for r in rows if r[2]=='detected')
missed=[r[0] for r in rows if r[2].startswith('not detected')]
cross=sum(1 for r in rows if r[2].startswith('detected by ') or r[2].startswith('detected only by'))
missed_txt="None is left undetected." if not missed else ("Not detected: "+", ".join("`seeded/%s`"%m for m in missed)+" (the reason is in its row and in section 9).")
sec=f'''## 11. Seeded breaking changes and which checks catch them

Every change below was written by a fresh sub-agent that was given only the
text of one property and its own scratch worktree of /repo (nothing from
/verif), had to keep the library compiling and the existing 113 tests passing,
and had to supply a demonstration test that fails with the change and passes
without it. Each was confirmed in the scratch worktree (existing suite passes,
demonstration fails with / passes without the change), then applied to /repo,
checked with `./check <id> quick`, and undone. Patch, demonstration and
`meta.json` are kept under `/verif/seeded/<id>-<n>/`. {n} changes in sixteen
rounds (the later rounds came with a hint: files not yet touched, options and
unusual API use, unusual broker behaviour, two application goroutines, faults during
recovery and timers, effects of repetition over a longer session); {first}
were caught by the checks as they stood, {cross} only by the check of another
property ("detected by ..."), the others only after the check was strengthened
("detected after ..." says what was missing; nothing was loosened to get
there). {missed_txt}

{tbl}
Hand-made one-line mutations used while building (not kept as files): PUBACK
with a wrong id / subBuffer entry never deleted (C04); SUBACK count check
relaxed, PUBCOMP routed to a wrong id (C07); shallow clone of payload, no clone
in ServeAsync / ServeMux, Retain dropped by clone (C20); KeepAlive without the
parent-context check, ticker interval changed, no Close after keep-alive
failure, doubled ping timeout (C13); non-atomic id counter, no zero skip (C15);
muWrite removed (C10: `wire-undecodable` and `interleaved` in engine R). All
were reported within the quick budget.
'''
p='/verif/DESIGN.md'
s=open(p).read()
if '## 11. Seeded breaking changes' in s:
    s=s[:s.index('## 11. Seeded breaking changes')]
s=re.sub(r'(\n-{60,}\n)+\s*$','\n',s.rstrip()+"\n")
s=s.rstrip()+"\n\n---------------------------------------------------------------------------\n\n"+sec
open(p,'w').write(s)
print(n,first)
