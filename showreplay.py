#!/usr/bin/env python3
import json,sys
d=json.load(open(sys.argv[1]))
sc=d['scenario']
print("RULE",d['expected']['signature'],"-",d['detail'])
print("cfg",sc['cfg'])
for o in sc['ops']: print(" op",o)
for f in sc.get('faults',[]): print(" fault",f)
for f in sc.get('script',[]): print(" script",f)
keys=sys.argv[2].split(',') if len(sys.argv)>2 else [' tx ',' rx ','cut','inv','ret','connected','sessreset','dial ','held','released','hin','state','onerror','cause','close','lost','drop','subtable','write']
for l in d.get('trace',[]):
    if any(k in l for k in keys): print(l[:230])
