#!/bin/sh
# usage: mut.sh <prop> <file> <python-replace-old> <new>   (applies to /repo, runs quick check, reverts)
prop=$1; file=$2; old=$3; new=$4
python3 - "$file" "$old" "$new" <<'PY'
import sys
p='/repo/'+sys.argv[1]; s=open(p).read()
old=sys.argv[2].encode().decode('unicode_escape'); new=sys.argv[3].encode().decode('unicode_escape')
assert old in s, "pattern not found"
s=s.replace(old,new,1); open(p,'w').write(s)
PY
[ $? -eq 0 ] || exit 9
(cd /repo && go build ./... ) || { git -C /repo checkout -- .; echo BUILD-FAIL; exit 9; }
cd /verif && VERIF_NO_EVIDENCE=1 VERIF_RUNS=${RUNS:-30000} ./check $prop quick 2>&1 | grep -E "VIOLATION|OK prop|MACHINERY|  C[0-9]+/" | head -8
git -C /repo checkout -- .
