package main

import (
	"encoding/json"
	"fmt"
	"os"
	"path/filepath"
	"regexp"
	"sort"
	"strings"
	"sync"
	"time"

	"verif/sim"
)

type raceSummary struct {
	viols    []violRec
	exit2    string
	notes    []string
	samples  []interface{}
	cov      map[string]interface{}
	runs     int
	distinct int
}

type raceReport struct {
	pair    string // functions only (stable across line shifts)
	detail  string // with file:line
	libBoth bool
	harness bool
	text    string
}

var frameRe = regexp.MustCompile(`^\s+(\S+)\(`)

// parseRaceReports splits race detector output into reports and extracts
// the two accesses.
func parseRaceReports(txt string) []raceReport {
	var out []raceReport
	for _, blk := range strings.Split(txt, "==================") {
		if !strings.Contains(blk, "WARNING: DATA RACE") {
			continue
		}
		lines := strings.Split(blk, "\n")
		var stacks [][]string // frames "func file:line"
		var cur []string
		in := false
		for i := 0; i < len(lines); i++ {
			ln := lines[i]
			isHdr := strings.Contains(ln, " by goroutine ") || strings.Contains(ln, " by main goroutine")
			if isHdr && (strings.HasPrefix(strings.TrimSpace(ln), "Write") || strings.HasPrefix(strings.TrimSpace(ln), "Read") || strings.HasPrefix(strings.TrimSpace(ln), "Previous") || strings.HasPrefix(strings.TrimSpace(ln), "Atomic")) {
				if in {
					stacks = append(stacks, cur)
				}
				cur, in = nil, true
				continue
			}
			if !in {
				continue
			}
			if strings.TrimSpace(ln) == "" {
				stacks = append(stacks, cur)
				cur, in = nil, false
				continue
			}
			if m := frameRe.FindStringSubmatch(ln); m != nil && i+1 < len(lines) {
				loc := strings.TrimSpace(lines[i+1])
				if j := strings.Index(loc, " +0x"); j > 0 {
					loc = loc[:j]
				}
				cur = append(cur, m[1]+" "+filepath.Base(loc))
				i++
			}
		}
		if in {
			stacks = append(stacks, cur)
		}
		if len(stacks) < 2 {
			continue
		}
		top := func(st []string) (fn, full string, lib bool) {
			for _, f := range st {
				if strings.HasPrefix(f, "github.com/at-wat/mqtt-go.") {
					parts := strings.SplitN(f, " ", 2)
					return strings.TrimPrefix(parts[0], "github.com/at-wat/mqtt-go."), strings.TrimPrefix(f, "github.com/at-wat/mqtt-go."), true
				}
			}
			if len(st) > 0 {
				parts := strings.SplitN(st[0], " ", 2)
				return parts[0], st[0], false
			}
			return "?", "?", false
		}
		f1, d1, l1 := top(stacks[0])
		f2, d2, l2 := top(stacks[1])
		// the racing access itself must be in library code: the first frame of
		// each stack that is not runtime/sync internals
		firstUser := func(st []string) string {
			for _, f := range st {
				if strings.HasPrefix(f, "runtime.") || strings.HasPrefix(f, "sync.") || strings.HasPrefix(f, "sync/atomic.") || strings.HasPrefix(f, "internal/") {
					continue
				}
				// the transport copying into / out of a buffer its caller gave it acts
				// for that caller (io.ReadFull -> Transport.Read)
				if strings.HasPrefix(f, "io.") || strings.HasPrefix(f, "verif/sim.(*Conn).Read ") || strings.HasPrefix(f, "verif/sim.(*Conn).Write ") {
					continue
				}
				return f
			}
			return ""
		}
		a1 := strings.HasPrefix(firstUser(stacks[0]), "github.com/at-wat/mqtt-go.")
		a2 := strings.HasPrefix(firstUser(stacks[1]), "github.com/at-wat/mqtt-go.")
		fs := []string{f1, f2}
		ds := []string{d1, d2}
		if fs[0] > fs[1] {
			fs[0], fs[1] = fs[1], fs[0]
			ds[0], ds[1] = ds[1], ds[0]
		}
		out = append(out, raceReport{
			pair:    fs[0] + " <-> " + fs[1],
			detail:  ds[0] + " <-> " + ds[1],
			libBoth: l1 && l2 && a1 && a2,
			harness: !(a1 || a2),
			text:    blk,
		})
	}
	return out
}

func searchR(bin, work, prop string, seed uint64, tc tierCfg) *raceSummary {
	rs := &raceSummary{cov: map[string]interface{}{}}
	rseed := seed | sim.RaceSeedBit
	type job struct{ from, to uint64 }
	jobs := make(chan job, 256)
	var mu sync.Mutex
	var wg sync.WaitGroup
	start := time.Now()
	deadline := start.Add(time.Duration(tc.wallS*1.5) * time.Second)
	agg := &sim.Summary{Fired: map[string]int{}, Probes: map[string]int{}, Families: map[string]int{}}
	pairs := map[string]int{}
	harnessRaces := 0
	otherRaces := map[string]int{}
	seen := map[string]bool{}
	for w := 0; w < 4; w++ {
		wg.Add(1)
		go func() {
			defer wg.Done()
			for j := range jobs {
				if time.Now().After(deadline) {
					continue
				}
				res := runWorker(bin, work, sim.WorkerSpec{Mode: "search", Prop: prop, Seed: rseed, From: j.from, To: j.to, Race: true}, 20*time.Minute)
				mu.Lock()
				for _, l := range res.lines {
					switch l.T {
					case "summary":
						mergeSummary(agg, l.Summary)
					case "viol":
						rs.viols = append(rs.viols, violRec{run: l.I, seed: rseed, viol: l.Viol, sc: l.Scenario, hash: l.Hash, race: true})
					case "race":
						for _, rep := range parseRaceReports(l.Note) {
							switch {
							case rep.libBoth:
								pairs[rep.pair]++
								if !seen[rep.pair] {
									seen[rep.pair] = true
									v := sim.Violation{Prop: prop, Rule: "race", Detail: rep.detail, Feat: map[string]string{"pair": rep.pair}}
									rs.viols = append(rs.viols, violRec{run: l.I, seed: rseed, viol: []sim.Violation{v}, sc: l.Scenario, race: true, raceReport: rep.text})
								}
							case rep.harness:
								harnessRaces++
								if rs.exit2 == "" {
									rs.exit2 = "race report with harness frames only (harness bug):\n" + rep.text
								}
							default:
								otherRaces[rep.pair]++
								if prop == "C10" && !seen[rep.pair] {
									// one side is library code, the other the application/harness
									// touching what the library handed to it: report, it is not ours to hide
									seen[rep.pair] = true
									v := sim.Violation{Prop: prop, Rule: "race", Detail: rep.detail, Feat: map[string]string{"pair": rep.pair}}
									rs.viols = append(rs.viols, violRec{run: l.I, seed: rseed, viol: []sim.Violation{v}, sc: l.Scenario, race: true, raceReport: rep.text})
								}
							}
						}
					}
				}
				if res.crashed {
					rs.viols = append(rs.viols, violRec{run: res.crashRun, seed: rseed, race: true, sc: sim.Generate(prop, rseed, res.crashRun), raceReport: tail(res.stderr, 60),
						viol: []sim.Violation{{Prop: prop, Rule: "panic", Detail: crashHeadline(res.stderr), Feat: map[string]string{"where": crashSite(res.stderr)}}}})
				}
				if res.hang {
					// same triage as engine S: a library goroutine sitting on a sync
					// mutex for ever (here typically two of them, a lock-order inversion
					// met under real parallelism) is the client's deadlock
					if why := libraryDeadlock(prop, res.crashRun); why != "" {
						rs.viols = append(rs.viols, violRec{run: res.crashRun, seed: rseed, race: true, sc: sim.Generate(prop, rseed, res.crashRun), raceReport: "hang: " + why,
							viol: []sim.Violation{{Prop: prop, Rule: "blocks-forever", Detail: fmt.Sprintf("engine R run %d never finished: %s", res.crashRun, why)}}})
					} else {
						rs.exit2 = fmt.Sprintf("engine R run %d hung", res.crashRun)
					}
				}
				mu.Unlock()
			}
		}()
	}
	chunk := uint64(250)
	for f := uint64(0); f < tc.raceRuns; f += chunk {
		to := f + chunk
		if to > tc.raceRuns {
			to = tc.raceRuns
		}
		jobs <- job{f, to}
	}
	close(jobs)
	wg.Wait()
	rs.runs = agg.Runs
	rs.distinct = agg.Nontrivial
	for _, s := range agg.Samples {
		rs.samples = append(rs.samples, s)
		break
	}
	var ps []string
	for p, n := range pairs {
		ps = append(ps, fmt.Sprintf("%s (x%d)", p, n))
	}
	sort.Strings(ps)
	rs.cov = map[string]interface{}{
		"runs":                      agg.Runs,
		"wall_s":                    time.Since(start).Seconds(),
		"race_pairs_in_library":     ps,
		"race_reports_harness_only": harnessRaces,
		"race_reports_mixed":        otherRaces,
		"faults_fired":              agg.Fired,
		"non_trivial_runs":          agg.Nontrivial,
		"mode":                      "free-running inside a synctest bubble under -race, GOMAXPROCS=8, actors of one phase start together, broker reacts inline, SimConn.Write copies each packet in two halves with a yield",
		"replay":                    "re-execution of the scenario until the same access pair is reported, <= 20 tries",
	}
	return rs
}

// raceViolations re-parses the race logs of a replay run.
func raceViolations(work, prop string) []sim.Violation {
	var out []sim.Violation
	ms, _ := filepath.Glob(filepath.Join(work, "*.race.*"))
	for _, m := range ms {
		b, err := os.ReadFile(m)
		if err != nil {
			continue
		}
		for _, rep := range parseRaceReports(string(b)) {
			if rep.harness {
				continue
			}
			out = append(out, sim.Violation{Prop: prop, Rule: "race", Detail: rep.detail, Feat: map[string]string{"pair": rep.pair}})
		}
		os.Remove(m)
	}
	return out
}

func writeRaceReplay(prop string, v sim.Violation, vr violRec) string {
	rf := replayFile{Property: prop, Rule: v.Rule, Seed: vr.seed, Run: vr.run, Engine: "R", Scenario: vr.sc, Detail: v.Detail, Tree: gitRev()}
	rf.Expected.Signature = v.Sig()
	if vr.raceReport != "" {
		rf.Trace = strings.Split(vr.raceReport, "\n")
	}
	b, _ := json.MarshalIndent(rf, "", " ")
	name := fmt.Sprintf("%s-%s-R-%d.json", prop, v.Rule, vr.run)
	if p := v.Feat["pair"]; p != "" {
		name = fmt.Sprintf("%s-%s-R-%s.json", prop, v.Rule, sanitize(p))
	}
	path := filepath.Join(root, "replays", name)
	os.WriteFile(path, b, 0o644)
	return path
}

func sanitize(s string) string {
	var sb strings.Builder
	for _, r := range s {
		switch {
		case r >= 'a' && r <= 'z', r >= 'A' && r <= 'Z', r >= '0' && r <= '9':
			sb.WriteRune(r)
		default:
			sb.WriteByte('_')
		}
	}
	out := sb.String()
	if len(out) > 90 {
		out = out[:90]
	}
	return out
}
