package main

import (
	"verif/sim"
)

type raceSummary struct {
	viols    []violRec
	exit2    string
	notes    []string
	samples  []interface{}
	cov      map[string]interface{}
	runs     int
	distinct int
}

func searchR(bin, work, prop string, seed uint64, tc tierCfg) *raceSummary {
	return &raceSummary{cov: map[string]interface{}{}}
}

func raceViolations(work, prop string) []sim.Violation { return nil }

func writeRaceReplay(prop string, v sim.Violation, vr violRec) string { return "" }

func selftest() int { return 0 }
