package main

func selftestImpl() int { return 0 }
