package main

import (
	"encoding/json"
	"fmt"
	"os"
	"path/filepath"
	"sort"
	"sync"
	"time"

	"verif/sim"
)

var engineSProps = []string{"C01", "C02", "C03", "C04", "C06", "C07", "C08", "C09", "C10", "C11", "C12", "C13", "C15", "C16", "C17", "C18", "C19", "C20"}

var workerProcs = "" // override GOMAXPROCS of engine S workers (self-test audit only)

// selftestImpl: determinism self-test. Every seed is executed 3 times in
// different worker processes at GOMAXPROCS=1 (canonical trace hashes must all
// agree) while further processes run the same seeds at GOMAXPROCS=4 and 16 as
// a confluence audit (reported, not a pass/fail criterion).
func selftestImpl() int {
	start := time.Now()
	bin := buildWorker(false)
	work := mkWork("selftest")
	defer os.RemoveAll(work)
	perProp := uint64(160)
	if v := os.Getenv("VERIF_SELFTEST_SEEDS"); v != "" {
		fmt.Sscan(v, &perProp)
	}
	seed := uint64(424242)
	type key struct {
		prop string
		i    uint64
	}
	type res struct {
		h1  []string
		h4  string
		h16 string
	}
	var mu sync.Mutex
	all := map[key]*res{}
	type job struct {
		prop  string
		only  []uint64
		procs string
	}
	var jobs []job
	for _, p := range engineSProps {
		// three disjoint partitions of the same index set, so that each index is
		// executed by three different processes with different neighbours
		var idx []uint64
		for i := uint64(0); i < perProp; i++ {
			idx = append(idx, i)
		}
		for rep := 0; rep < 3; rep++ {
			parts := 2 + rep
			for q := 0; q < parts; q++ {
				var only []uint64
				for k, i := range idx {
					if k%parts == q {
						only = append(only, i)
					}
				}
				if rep == 1 {
					// reversed order in the second repetition
					for a, b := 0, len(only)-1; a < b; a, b = a+1, b-1 {
						only[a], only[b] = only[b], only[a]
					}
				}
				jobs = append(jobs, job{p, only, "1"})
			}
		}
		jobs = append(jobs, job{p, idx, "4"}, job{p, idx, "16"})
	}
	ch := make(chan job, len(jobs))
	for _, j := range jobs {
		ch <- j
	}
	close(ch)
	var wg sync.WaitGroup
	nproc := 0
	for w := 0; w < 16; w++ {
		wg.Add(1)
		go func() {
			defer wg.Done()
			for j := range ch {
				r := runWorkerProcs(bin, work, sim.WorkerSpec{Mode: "search", Prop: j.prop, Seed: seed, Only: j.only}, 20*time.Minute, j.procs)
				mu.Lock()
				nproc++
				for _, l := range r.lines {
					if l.T != "hash" {
						continue
					}
					k := key{j.prop, l.I}
					if all[k] == nil {
						all[k] = &res{}
					}
					switch j.procs {
					case "1":
						all[k].h1 = append(all[k].h1, l.Hash)
					case "4":
						all[k].h4 = l.Hash
					case "16":
						all[k].h16 = l.Hash
					}
				}
				mu.Unlock()
			}
		}()
	}
	wg.Wait()
	mism, div4, div16, n := 0, 0, 0, 0
	var bad []string
	for k, r := range all {
		n++
		ok := len(r.h1) == 3
		for _, h := range r.h1 {
			if h != r.h1[0] {
				ok = false
			}
		}
		if !ok {
			mism++
			bad = append(bad, fmt.Sprintf("%s/%d %v", k.prop, k.i, r.h1))
			continue
		}
		if r.h4 != "" && r.h4 != r.h1[0] {
			div4++
		}
		if r.h16 != "" && r.h16 != r.h1[0] {
			div16++
		}
	}
	sort.Strings(bad)
	// a mismatch is only a failure if it persists: re-execute each mismatching
	// seed 5 more times in fresh processes; a one-off divergence (the OS
	// descheduled a worker in the middle of a step under load) is reported as
	// transient
	transient := 0
	var persistent []string
	for k, r := range all {
		ok := len(r.h1) == 3 && r.h1[0] == r.h1[1] && r.h1[1] == r.h1[2]
		if ok {
			continue
		}
		seen := map[string]int{}
		for t := 0; t < 5; t++ {
			rr := runWorkerProcs(bin, work, sim.WorkerSpec{Mode: "search", Prop: k.prop, Seed: seed, Only: []uint64{k.i}}, 10*time.Minute, "1")
			for _, l := range rr.lines {
				if l.T == "hash" {
					seen[l.Hash]++
				}
			}
		}
		if len(seen) == 1 {
			transient++
		} else {
			persistent = append(persistent, fmt.Sprintf("%s/%d %v", k.prop, k.i, seen))
		}
	}
	mism = len(persistent)
	out := map[string]interface{}{
		"transient_mismatches_under_load": transient,
		"persistent_mismatches":           persistent,
		"seeds":                           n,
		"executions_at_gomaxprocs_1":      n * 3,
		"worker_processes":                nproc,
		"mismatches_at_gomaxprocs_1":      mism,
		"mismatch_examples":               bad,
		"divergent_at_gomaxprocs_4":       div4,
		"divergent_at_gomaxprocs_16":      div16,
		"wall_s":                          time.Since(start).Seconds(),
		"tree":                            gitRev(),
		"note":                            "pass criterion: every seed gives the same canonical trace hash in three different processes at GOMAXPROCS=1 (different neighbours, one repetition in reversed order); 4/16-P runs are a confluence audit only",
	}
	b, _ := json.MarshalIndent(out, "", " ")
	os.WriteFile(filepath.Join(root, "evidence", "selftest.json"), b, 0o644)
	fmt.Println(string(b))
	if mism > 0 {
		fmt.Fprintln(os.Stderr, "verifctl: determinism self-test FAILED")
		return 2
	}
	return 0
}
