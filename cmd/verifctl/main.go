// verifctl drives the deterministic-simulation checks: builds the worker from
// /repo's working tree, fans seeds out to worker processes, minimises and
// replays violations, matches known findings, writes evidence, owns exit codes.
package main

import (
	"bytes"
	"encoding/binary"
	"encoding/json"
	"fmt"
	"os"
	"os/exec"
	"path/filepath"
	"sort"
	"strconv"
	"strings"
	"sync"
	"time"

	"verif/sim"
)

// root is the directory of the verification tree (cwd of the check script).
var root = func() string {
	d, err := os.Getwd()
	if err != nil {
		return "/verif"
	}
	return d
}()

var goEnv = []string{"GOFLAGS=-mod=mod", "GOPROXY=off", "GOSUMDB=off", "GOTOOLCHAIN=local", "CGO_ENABLED=1"}

func fatal2(format string, a ...interface{}) {
	fmt.Fprintf(os.Stderr, "verifctl: "+format+"\n", a...)
	os.Exit(2)
}

func goCmd(args ...string) *exec.Cmd {
	c := exec.Command("go1.26.8", args...)
	c.Dir = root
	c.Env = append(os.Environ(), goEnv...)
	return c
}

func buildWorker(race bool) string {
	out := filepath.Join(root, "bin", "worker.test")
	args := []string{"test", "-c", "-tags", "verif", "-o", out, "./sim"}
	if race {
		out = filepath.Join(root, "bin", "worker.race.test")
		args = []string{"test", "-c", "-race", "-tags", "verif", "-o", out, "./sim"}
	}
	if mf := os.Getenv("VERIF_MODFLAG"); mf != "" {
		args = append([]string{args[0], mf}, args[1:]...)
	}
	c := goCmd(args...)
	b, err := c.CombinedOutput()
	if err != nil {
		fatal2("building worker from /repo failed: %v\n%s", err, b)
	}
	return out
}

type tierCfg struct {
	runs     uint64
	wallS    float64
	chunk    uint64
	seeds    int
	race     bool
	raceRuns uint64
}

func tierFor(prop, tier string) tierCfg {
	t := tierCfg{runs: 100000, wallS: 45, chunk: 2500, seeds: 1}
	if prop == "C06" {
		t.runs = 40000 // legal 256 MB announcements make some runs slow
	}
	if tier == "thorough" {
		t = tierCfg{runs: 1500000, wallS: 600, chunk: 4000, seeds: 3}
	}
	switch prop {
	case "C10":
		t.race = true
		if tier != "thorough" {
			t.runs = 40000 // engine S only contributes the framing rule here; engine R carries the weight
		}
		t.raceRuns = 8000
		if tier == "thorough" {
			t.raceRuns = 120000
		}
	case "C17":
		// handler registration racing with SetClient/Connect needs real parallelism
		t.race = true
		t.raceRuns = 4000
		if tier == "thorough" {
			t.raceRuns = 40000
		}
	case "C16":
		// endings racing with each other under real parallelism
		t.race = true
		t.raceRuns = 2000
		if tier == "thorough" {
			t.raceRuns = 40000
		}
	case "C07":
		// concurrent first use: callers of one instant under real parallelism
		t.race = true
		t.raceRuns = 3000
		if tier == "thorough" {
			t.raceRuns = 40000
		}
	case "C15":
		t.race = true
		t.raceRuns = 3000
		if tier == "thorough" {
			t.raceRuns = 40000
		}
	}
	if v := os.Getenv("VERIF_RUNS"); v != "" {
		if n, err := strconv.ParseUint(v, 10, 64); err == nil {
			t.runs = n
		}
	}
	if v := os.Getenv("VERIF_RACE_RUNS"); v != "" {
		if n, err := strconv.ParseUint(v, 10, 64); err == nil {
			t.raceRuns = n
		}
	}
	if v := os.Getenv("VERIF_WALL"); v != "" {
		if n, err := strconv.ParseFloat(v, 64); err == nil {
			t.wallS = n
		}
	}
	return t
}

type chunkResult struct {
	lines    []sim.Line
	crashed  bool
	crashRun uint64
	stderr   string
	exit     int
	hang     bool
	out      string
}

var specCounter int
var specMu sync.Mutex

func runWorker(bin, workDir string, spec sim.WorkerSpec, timeout time.Duration) chunkResult {
	return runWorkerProcs(bin, workDir, spec, timeout, "")
}

func runWorkerProcs(bin, workDir string, spec sim.WorkerSpec, timeout time.Duration, procsOverride string) chunkResult {
	specMu.Lock()
	specCounter++
	n := specCounter
	specMu.Unlock()
	base := filepath.Join(workDir, fmt.Sprintf("w%06d", n))
	spec.Out = base + ".out"
	sb, _ := json.Marshal(spec)
	os.WriteFile(base+".spec", sb, 0o644)
	procs := "1"
	if spec.Race {
		procs = "8"
	}
	if procsOverride != "" {
		procs = procsOverride
	}
	cmd := exec.Command("sh", "-c", "ulimit -v 12000000; exec \"$0\" -test.run '^TestWorker$' -test.timeout 0 -test.count 1", bin)
	cmd.Env = append(os.Environ(), "VERIF_SPEC="+base+".spec", "GOMAXPROCS="+procs, "GORACE=halt_on_error=0 log_path="+base+".race")
	var stderr bytes.Buffer
	cmd.Stderr = &stderr
	cmd.Stdout = &stderr
	done := make(chan error, 1)
	if err := cmd.Start(); err != nil {
		fatal2("cannot start worker: %v", err)
	}
	go func() { done <- cmd.Wait() }()
	var err error
	select {
	case err = <-done:
	case <-time.After(timeout):
		cmd.Process.Kill()
		<-done
		return chunkResult{hang: true, exit: -1, stderr: "driver timeout", out: spec.Out}
	}
	res := chunkResult{stderr: stderr.String(), out: spec.Out}
	if b, e := os.ReadFile(spec.Out); e == nil {
		for _, ln := range bytes.Split(b, []byte{'\n'}) {
			if len(ln) == 0 {
				continue
			}
			var l sim.Line
			if json.Unmarshal(ln, &l) == nil {
				res.lines = append(res.lines, l)
				if l.T == "hang" {
					res.hang = true
					res.crashRun = l.I
					if hb, e := os.ReadFile(spec.Out + ".hangstack"); e == nil {
						os.WriteFile(filepath.Join(root, "replays", fmt.Sprintf("hang-%s-%d.stack.txt", spec.Prop, l.I)), hb, 0o644)
					}
				}
			}
		}
	}
	if err != nil {
		res.exit = 1
		if ee, ok := err.(*exec.ExitError); ok {
			res.exit = ee.ExitCode()
		}
		hasSummary := false
		for _, l := range res.lines {
			if l.T == "summary" || l.T == "replay" || l.T == "minimised" {
				hasSummary = true
			}
		}
		if !hasSummary && !res.hang {
			res.crashed = true
			if b, e := os.ReadFile(spec.Out + ".cur"); e == nil {
				res.crashRun, _ = strconv.ParseUint(strings.TrimLeft(strings.TrimSpace(string(b)), "0"), 10, 64)
			}
		}
	}
	return res
}

type knownFinding struct {
	Property string            `json:"property"`
	Rule     string            `json:"rule"`
	Match    map[string]string `json:"match"`
	Status   string            `json:"status"` // known | fixed
	Commit   string            `json:"commit,omitempty"`
	Text     string            `json:"text"`
}

func loadKnown() []knownFinding {
	b, err := os.ReadFile(filepath.Join(root, "known_findings.json"))
	if err != nil {
		return nil
	}
	var k struct {
		Findings []knownFinding `json:"findings"`
	}
	if err := json.Unmarshal(b, &k); err != nil {
		fatal2("known_findings.json: %v", err)
	}
	return k.Findings
}

func matchKnown(ks []knownFinding, v sim.Violation) *knownFinding {
	for i := range ks {
		k := &ks[i]
		if k.Status != "known" || k.Property != v.Prop || k.Rule != v.Rule {
			continue
		}
		ok := true
		for f, want := range k.Match {
			if v.Feat[f] != want {
				ok = false
			}
		}
		if ok {
			return k
		}
	}
	return nil
}

func featKey(v sim.Violation) string {
	var ks []string
	for k, x := range v.Feat {
		ks = append(ks, k+"="+x)
	}
	sort.Strings(ks)
	return v.Sig() + "{" + strings.Join(ks, ",") + "}"
}

type evidence struct {
	PropertyID  string                 `json:"property_id"`
	Tier        string                 `json:"tier"`
	Seed        int64                  `json:"seed"`
	Level       string                 `json:"level"`
	Coverage    map[string]interface{} `json:"coverage"`
	Assumptions []string               `json:"assumptions"`
	WallS       float64                `json:"wall_s"`
	Violations  int                    `json:"violations"`
}

func main() {
	if len(os.Args) < 2 {
		fatal2("usage: verifctl check <prop> <tier> | replay <file> | selftest")
	}
	switch os.Args[1] {
	case "check":
		if len(os.Args) < 4 {
			fatal2("usage: verifctl check <prop> <quick|thorough>")
		}
		os.Exit(check(os.Args[2], os.Args[3]))
	case "replay":
		if len(os.Args) < 3 {
			fatal2("usage: verifctl replay <file>")
		}
		os.Exit(replay(os.Args[2]))
	case "selftest":
		os.Exit(selftest())
	default:
		fatal2("unknown command %q", os.Args[1])
	}
}

type replayFile struct {
	Property string        `json:"property"`
	Rule     string        `json:"rule"`
	Seed     uint64        `json:"seed"`
	Run      uint64        `json:"run"`
	Engine   string        `json:"engine"`
	Scenario *sim.Scenario `json:"scenario"`
	Expected struct {
		Signature string `json:"signature"`
		TraceHash string `json:"trace_hash"`
	} `json:"expected"`
	Detail string   `json:"detail"`
	Trace  []string `json:"trace"`
	Tree   string   `json:"tree"`
	Crash  string   `json:"crash,omitempty"`
}

func gitRev() string {
	repo := "/repo"
	if v := os.Getenv("VERIF_REPO"); v != "" {
		repo = v
	}
	c := exec.Command("git", "-C", repo, "rev-parse", "--short", "HEAD")
	b, _ := c.Output()
	d := exec.Command("git", "-C", repo, "status", "--porcelain")
	db, _ := d.Output()
	s := strings.TrimSpace(string(b))
	if len(bytes.TrimSpace(db)) > 0 {
		s += "+dirty"
	}
	return s
}

func mkWork(name string) string {
	d := filepath.Join(root, "work", name)
	os.RemoveAll(d)
	if err := os.MkdirAll(d, 0o755); err != nil {
		fatal2("mkdir %s: %v", d, err)
	}
	os.MkdirAll(filepath.Join(root, "replays"), 0o755)
	os.MkdirAll(filepath.Join(root, "evidence"), 0o755)
	return d
}

func replay(path string) int {
	b, err := os.ReadFile(path)
	if err != nil {
		fatal2("%v", err)
	}
	var rf replayFile
	if err := json.Unmarshal(b, &rf); err != nil {
		fatal2("%s: %v", path, err)
	}
	race := rf.Engine == "R"
	bin := buildWorker(race)
	work := mkWork("replay-" + strconv.Itoa(os.Getpid()))
	defer os.RemoveAll(work)
	scPath := filepath.Join(work, "scenario.json")
	os.WriteFile(scPath, rf.Scenario.JSON(), 0o644)
	// Engine S: one execution is expected to reproduce the file exactly. The one
	// source of nondeterminism no seed controls is Go's random choice among
	// ready select cases (DESIGN 4); a violation that hangs on such a choice (a
	// defect all the same, F18 was one) reproduces in some executions only, so
	// the replay is repeated a few times before it is declared not reproduced.
	tries := 8
	if race {
		tries = 20
	}
	hashDiffers := ""
	for t := 0; t < tries; t++ {
		res := runWorker(bin, work, sim.WorkerSpec{Mode: "replay", Prop: rf.Property, Scenario: scPath, Race: race}, 5*time.Minute)
		if rf.Crash != "" {
			if res.crashed && strings.Contains(res.stderr, "github.com/at-wat/mqtt-go") {
				fmt.Printf("VIOLATION property=%s replay=%s\n", rf.Property, path)
				fmt.Printf("reproduced: worker crashed in library code\n")
				return 1
			}
			continue
		}
		if race {
			if vs := raceViolations(work, rf.Property); len(vs) > 0 {
				for _, v := range vs {
					if v.Sig() == rf.Expected.Signature && v.Detail == rf.Detail {
						fmt.Printf("VIOLATION property=%s replay=%s\n", rf.Property, path)
						fmt.Printf("reproduced (try %d): %s\n", t+1, v.Detail)
						return 1
					}
				}
			}
		}
		for _, l := range res.lines {
			if l.T != "replay" {
				continue
			}
			for _, v := range l.Viol {
				if v.Sig() == rf.Expected.Signature {
					if !race && l.Hash != rf.Expected.TraceHash {
						hashDiffers = fmt.Sprintf("same violation but trace hash differs: got %s want %s", l.Hash, rf.Expected.TraceHash)
						continue
					}
					fmt.Printf("VIOLATION property=%s replay=%s\n", rf.Property, path)
					if t > 0 && !race {
						fmt.Printf("reproduced in execution %d of at most %d (the outcome of this scenario depends on Go's random choice among ready select cases): %s: %s (trace hash %s)\n", t+1, tries, v.Sig(), v.Detail, l.Hash)
						return 1
					}
					fmt.Printf("reproduced: %s: %s (trace hash %s)\n", v.Sig(), v.Detail, l.Hash)
					return 1
				}
			}
		}
	}
	if hashDiffers != "" {
		fmt.Println(hashDiffers)
	}
	fmt.Printf("did not reproduce %s from %s\n", rf.Expected.Signature, path)
	return 3
}

func check(prop, tier string) int {
	start := time.Now()
	tc := tierFor(prop, tier)
	seed := uint64(20260926)
	if tier == "thorough" {
		seed = 7770001
	}
	if v := os.Getenv("VERIF_SEED"); v != "" {
		if n, err := strconv.ParseInt(v, 10, 64); err == nil {
			seed = uint64(n)
		}
	}
	fmt.Printf("VERIF_SEED=%d property=%s tier=%s tree=%s\n", seed, prop, tier, gitRev())
	known := loadKnown()
	work := mkWork(prop + "-" + tier)
	defer os.RemoveAll(work)

	agg := &sim.Summary{Fired: map[string]int{}, Probes: map[string]int{}, Families: map[string]int{}}
	hashes := map[uint64]struct{}{}
	var viols []violRec
	var crashes []crashRec
	var hangs []uint64
	detChecked, detMismatch := 0, 0
	unreproduced := 0
	var notes []string
	exit2 := ""

	if propHasEngineS(prop) {
		bin := buildWorker(false)
		for sd := 0; sd < tc.seeds; sd++ {
			s := seed + uint64(sd)*1000003
			r := searchS(bin, work, prop, s, tc, start)
			mergeSummary(agg, r.sum)
			for h := range r.hashes {
				hashes[h] = struct{}{}
			}
			viols = append(viols, r.viols...)
			crashes = append(crashes, r.crashes...)
			hangs = append(hangs, r.hangs...)
			detChecked += r.detChecked
			detMismatch += r.detMismatch
			if r.exit2 != "" {
				exit2 = r.exit2
			}
			if time.Since(start).Seconds() > tc.wallS {
				break
			}
		}
	}
	var raceSum *raceSummary
	if tc.race {
		bin := buildWorker(true)
		raceSum = searchR(bin, work, prop, seed, tc)
		viols = append(viols, raceSum.viols...)
		if raceSum.exit2 != "" {
			exit2 = raceSum.exit2
		}
		notes = append(notes, raceSum.notes...)
	}

	// ---- triage violations
	nViol := 0
	reported := map[string]bool{}
	knownPrinted := map[string]bool{}
	sort.SliceStable(viols, func(i, j int) bool { return viols[i].run < viols[j].run })
	for _, vr := range viols {
		for _, v := range vr.viol {
			key := featKey(v)
			if reported[key] {
				continue
			}
			if k := matchKnown(known, v); k != nil {
				if !knownPrinted[k.Text] {
					knownPrinted[k.Text] = true
					fmt.Printf("KNOWN-FINDING: property=%s %s\n", prop, k.Text)
				}
				reported[key] = true
				continue
			}
			reported[key] = true
			if vr.race {
				path := writeRaceReplay(prop, v, vr)
				fmt.Printf("VIOLATION property=%s replay=%s\n", prop, path)
				fmt.Printf("  %s: %s\n", v.Sig(), v.Detail)
				nViol++
				continue
			}
			// minimise, then decide again on the minimised features
			mv, msc, mhash, mtrace, note := minimise(work, prop, v, vr)
			if mv == nil {
				// the minimiser died (a candidate can crash the worker): fall back to
				// the scenario as found, replayed in a fresh process
				mv, msc, mhash, mtrace, note = replayOriginal(work, prop, v, vr)
				note = "not minimised: " + note
			}
			if mv == nil {
				// the same scenario, re-executed deterministically in fresh processes,
				// shows no violation: the first observation came from a perturbed
				// execution (possible under machine load, DESIGN 4) and cannot be
				// replayed, so it is not reported; it is kept for diagnosis
				unreproduced++
				ub, _ := json.MarshalIndent(map[string]interface{}{"property": prop, "violation": v, "seed": vr.seed, "run": vr.run, "scenario": vr.sc, "trace_of_the_unreproduced_execution": vr.trace, "note": note}, "", " ")
				up := filepath.Join(root, "replays", fmt.Sprintf("unreproduced-%s-%s-%d.json", prop, v.Rule, vr.run))
				os.WriteFile(up, ub, 0o644)
				fmt.Printf("WARNING: %s seen once in run %d (seed %d) but not in 3 deterministic re-executions; not reported (kept in %s)\n", v.Sig(), vr.run, vr.seed, up)
				continue
			}
			if k := matchKnown(known, *mv); k != nil {
				if !knownPrinted[k.Text] {
					knownPrinted[k.Text] = true
					fmt.Printf("KNOWN-FINDING: property=%s %s\n", prop, k.Text)
				}
				continue
			}
			mk := "min:" + featKey(*mv)
			if reported[mk] {
				continue
			}
			reported[mk] = true
			path := writeReplay(prop, *mv, msc, mhash, mtrace, vr)
			// replay in a fresh process must reproduce exactly
			if rc := replayQuiet(path); rc != 1 {
				// the minimised scenario behaves differently in a fresh process (its
				// outcome hangs on the order in which the Go scheduler runs goroutines
				// that became runnable in the same step, DESIGN 4): fall back to the
				// scenario as found, which must then reproduce in fresh processes
				ov, osc, ohash, otrace, onote := replayOriginal(work, prop, v, vr)
				if ov != nil && matchKnown(known, *ov) == nil {
					opath := writeReplay(prop, *ov, osc, ohash, otrace, vr)
					if replayQuiet(opath) == 1 {
						fmt.Printf("VIOLATION property=%s replay=%s\n", prop, opath)
						fmt.Printf("  %s: %s\n  not minimised (%d ops, %d faults, %d script items): the minimised scenario %s did not reproduce in a fresh process (%s)\n", ov.Sig(), ov.Detail, len(osc.Ops), len(osc.Faults), len(osc.Script), filepath.Base(path), onote)
						nViol++
						continue
					}
				}
				exit2 = fmt.Sprintf("replay of %s did not reproduce (rc=%d)", path, rc)
				continue
			}
			fmt.Printf("VIOLATION property=%s replay=%s\n", prop, path)
			fmt.Printf("  %s: %s\n  minimised to %d ops, %d faults, %d script items (%s)\n", mv.Sig(), mv.Detail, len(msc.Ops), len(msc.Faults), len(msc.Script), note)
			nViol++
		}
	}
	for _, cr := range crashes {
		if !crashIsViolation(prop) {
			exit2 = fmt.Sprintf("worker crashed in run %d (seed %d); stderr tail:\n%s", cr.run, cr.seed, tail(cr.stderr, 30))
			continue
		}
		v := sim.Violation{Prop: prop, Rule: "panic", Detail: crashHeadline(cr.stderr), Feat: map[string]string{"where": crashSite(cr.stderr)}}
		key := featKey(v)
		if reported[key] {
			continue
		}
		reported[key] = true
		if k := matchKnown(known, v); k != nil {
			if !knownPrinted[k.Text] {
				knownPrinted[k.Text] = true
				fmt.Printf("KNOWN-FINDING: property=%s %s\n", prop, k.Text)
			}
			continue
		}
		sc := sim.Generate(prop, cr.seed, cr.run)
		sc = minimiseCrash(work, prop, sc)
		path := writeCrashReplay(prop, v, sc, cr)
		fmt.Printf("VIOLATION property=%s replay=%s\n", prop, path)
		fmt.Printf("  %s: %s\n", v.Sig(), v.Detail)
		nViol++
	}
	for _, h := range hangs {
		if prop != "C11" {
			if why := libraryDeadlock(prop, h); why != "" {
				// a goroutine of the library sits on a sync mutex for ever: a deadlock in
				// the client, which breaks any property whose workload was running
				v := sim.Violation{Prop: prop, Rule: "blocks-forever", Detail: fmt.Sprintf("run %d never reached quiescence: %s", h, why)}
				sc := sim.Generate(prop, seed, h)
				path := writeCrashReplay(prop, v, sc, crashRec{run: h, seed: seed, stderr: "hang: " + why})
				fmt.Printf("VIOLATION property=%s replay=%s\n  %s\n", prop, path, v.Detail)
				nViol++
				continue
			}
		}
		if prop == "C11" {
			v := sim.Violation{Prop: prop, Rule: "blocks-forever", Detail: fmt.Sprintf("run %d never reached quiescence (non-durable block or spin)", h)}
			sc := sim.Generate(prop, seed, h)
			path := writeCrashReplay(prop, v, sc, crashRec{run: h, seed: seed, stderr: "hang"})
			fmt.Printf("VIOLATION property=%s replay=%s\n", prop, path)
			nViol++
		} else {
			exit2 = fmt.Sprintf("run %d hung (no scheduler progress for 60 s)", h)
		}
	}

	// ---- evidence
	wall := time.Since(start).Seconds()
	ev := evidence{PropertyID: prop, Tier: tier, Seed: int64(seed), Level: levelOf(prop), WallS: wall, Violations: nViol}
	samples := []interface{}{}
	for _, s := range agg.Samples {
		samples = append(samples, s)
		if len(samples) >= 2 {
			break
		}
	}
	if raceSum != nil {
		for _, s := range raceSum.samples {
			samples = append(samples, s)
		}
	}
	if len(samples) == 0 {
		samples = append(samples, "no sample captured")
	}
	runsPerHour := 0.0
	if wall > 0 {
		runsPerHour = float64(agg.Runs) / wall * 3600
	}
	cov := map[string]interface{}{
		"evaluations":         agg.Runs,
		"distinct_nontrivial": len(hashes),
		"rule":                "scenario = seeded (ops, faults, broker script, config); a run is non-trivial when at least one fault/scripted broker action/application-side cause took effect and it has >= 2 application ops; distinct = distinct canonical trace hashes among non-trivial runs (measured, union over workers)",
		"samples":             samples,
		"runs_per_hour":       runsPerHour,
		"seeds_per_hour":      runsPerHour, // every run is generated from its own derived seed hash(VERIF_SEED, family, run index)
		"batch_seeds":         tc.seeds,
		"simulated_seconds":   float64(agg.FakeNs) / 1e9,
		"scheduler_steps":     agg.Steps,
		"events_applied":      agg.Events,
		"faults_fired":        agg.Fired,
		"probes":              agg.Probes,
		"families":            agg.Families,
		"cap_hits":            agg.CapHits,
		"deferred_direct_ops": agg.Deferred,
		"determinism_recheck": map[string]int{"reexecuted": detChecked, "mismatch": detMismatch, "violations_not_reproduced_and_dropped": unreproduced},
		"real_code":           "whole github.com/at-wat/mqtt-go package incl. its goroutines, mutexes, channels, timers (built from /repo working tree with -tags verif)",
		"stubs":               "transport (SimConn), dialer (SimDialer), broker (reference model with own codec), application actors/handlers; clock = testing/synctest fake clock",
		"notes":               notes,
	}
	if raceSum != nil {
		cov["engine_R"] = raceSum.cov
		cov["evaluations"] = agg.Runs + raceSum.runs
		if len(hashes) < 2 {
			cov["distinct_nontrivial"] = raceSum.distinct
		} else {
			cov["distinct_nontrivial"] = len(hashes) + raceSum.distinct
		}
	}
	if extra := extraCoverage(prop, agg); extra != nil {
		for k, v := range extra {
			cov[k] = v
		}
	}
	ev.Coverage = cov
	ev.Assumptions = assumptionsOf(prop)
	eb, _ := json.MarshalIndent(ev, "", " ")
	if os.Getenv("VERIF_NO_EVIDENCE") == "" {
		// (helper scripts that run the checks against deliberately broken trees set
		// VERIF_NO_EVIDENCE so that the committed evidence always describes /repo)
		os.WriteFile(filepath.Join(root, "evidence", prop+".json"), eb, 0o644)
	}

	fmt.Printf("runs=%d distinct_nontrivial=%d fake_s=%.1f wall_s=%.1f fired=%v cap_hits=%d determinism_recheck=%d/%d mismatches\n",
		agg.Runs, len(hashes), float64(agg.FakeNs)/1e9, wall, agg.Fired, agg.CapHits, detMismatch, detChecked)
	if agg.HarnessErrs > 0 {
		exit2 = fmt.Sprintf("%d harness errors, first: %s", agg.HarnessErrs, agg.HarnessMsg)
	}
	if agg.Runs > 0 && float64(agg.CapHits)/float64(agg.Runs) > 0.01 {
		exit2 = fmt.Sprintf("%d of %d runs hit a cap (>1%%)", agg.CapHits, agg.Runs)
	}
	if detMismatch > 0 && (detMismatch > 6 || detMismatch*1000 > detChecked*15) {
		// isolated mismatches come from the Go runtime's unseedable choice among
		// several ready cases of a library select (measured: up to 0.06 % of the
		// runs, DESIGN.md section 4) or from the OS descheduling a worker in the
		// middle of a step; they are reported in the evidence. More than 6, or
		// more than 1.5 % of the re-executed runs, mean a real leak of
		// nondeterminism into the simulator (such leaks showed as 25 % and more)
		exit2 = fmt.Sprintf("nondeterminism: %d of %d re-executed runs had a different trace hash", detMismatch, detChecked)
	}
	if unreproduced > 3 {
		exit2 = fmt.Sprintf("%d violations seen once could not be reproduced deterministically", unreproduced)
	}
	if nViol > 0 {
		return 1
	}
	if exit2 != "" {
		fmt.Fprintf(os.Stderr, "verifctl: MACHINERY PROBLEM (exit 2): %s\n", exit2)
		return 2
	}
	fmt.Printf("OK property=%s held on everything explored\n", prop)
	return 0
}

func tail(s string, n int) string {
	ls := strings.Split(strings.TrimRight(s, "\n"), "\n")
	if len(ls) > n {
		ls = ls[len(ls)-n:]
	}
	return strings.Join(ls, "\n")
}

// crashIsViolation: a panic inside the library kills the application, which
// breaks every property whose workload was running.
func crashIsViolation(prop string) bool { return true }

func crashHeadline(stderr string) string {
	for _, ln := range strings.Split(stderr, "\n") {
		if strings.HasPrefix(ln, "panic:") || strings.HasPrefix(ln, "fatal error:") {
			return "client process died: " + ln
		}
	}
	return "client process died"
}

func crashSite(stderr string) string {
	lines := strings.Split(stderr, "\n")
	for i, ln := range lines {
		if strings.HasPrefix(ln, "github.com/at-wat/mqtt-go.") && i+1 < len(lines) {
			f := strings.TrimSpace(lines[i+1])
			if j := strings.Index(f, " +0x"); j > 0 {
				f = f[:j]
			}
			f = filepath.Base(f)
			fn := ln
			if j := strings.LastIndexByte(fn, '('); j > 0 {
				fn = fn[:j]
			}
			return strings.TrimPrefix(fn, "github.com/at-wat/mqtt-go.") + "@" + strings.Split(f, ":")[0]
		}
	}
	return "unknown"
}

type violRec struct {
	run        uint64
	seed       uint64
	viol       []sim.Violation
	sc         *sim.Scenario
	hash       string
	race       bool
	raceReport string
	trace      []string
}

type crashRec struct {
	run    uint64
	seed   uint64
	stderr string
}

type searchResult struct {
	sum         *sim.Summary
	hashes      map[uint64]struct{}
	viols       []violRec
	crashes     []crashRec
	hangs       []uint64
	detChecked  int
	detMismatch int
	exit2       string
}

func mergeSummary(a, b *sim.Summary) {
	if b == nil {
		return
	}
	a.Runs += b.Runs
	a.Steps += b.Steps
	a.Events += b.Events
	a.FakeNs += b.FakeNs
	a.CapHits += b.CapHits
	a.HarnessErrs += b.HarnessErrs
	if a.HarnessMsg == "" {
		a.HarnessMsg = b.HarnessMsg
	}
	a.Nontrivial += b.Nontrivial
	a.Deferred += b.Deferred
	a.ViolRuns += b.ViolRuns
	for k, v := range b.Fired {
		a.Fired[k] += v
	}
	for k, v := range b.Probes {
		a.Probes[k] += v
	}
	for k, v := range b.Families {
		a.Families[k] += v
	}
	if len(a.Samples) < 2 {
		a.Samples = append(a.Samples, b.Samples...)
	}
}

// searchS runs the seeded search of engine S over 16 worker processes.
func searchS(bin, work, prop string, seed uint64, tc tierCfg, start time.Time) *searchResult {
	r := &searchResult{sum: &sim.Summary{Fired: map[string]int{}, Probes: map[string]int{}, Families: map[string]int{}}, hashes: map[uint64]struct{}{}}
	type job struct{ from, to uint64 }
	jobs := make(chan job, 1024)
	var mu sync.Mutex
	sampled := map[uint64]string{}
	var wg sync.WaitGroup
	nWorkers := 16
	if v := os.Getenv("VERIF_WORKERS"); v != "" {
		if n, err := strconv.Atoi(v); err == nil && n > 0 {
			nWorkers = n
		}
	}
	deadline := start.Add(time.Duration(tc.wallS * float64(time.Second)))
	stopFlag := false
	for w := 0; w < nWorkers; w++ {
		wg.Add(1)
		go func() {
			defer wg.Done()
			for j := range jobs {
				from := j.from
				for from < j.to {
					mu.Lock()
					stop := stopFlag || time.Now().After(deadline)
					mu.Unlock()
					if stop {
						break
					}
					res := runWorker(bin, work, sim.WorkerSpec{Mode: "search", Prop: prop, Seed: seed, From: from, To: j.to, SampleEvery: 50}, 20*time.Minute)
					mu.Lock()
					for _, l := range res.lines {
						switch l.T {
						case "summary":
							mergeSummary(r.sum, l.Summary)
						case "viol":
							r.viols = append(r.viols, violRec{run: l.I, seed: seed, viol: l.Viol, sc: l.Scenario, hash: l.Hash, trace: l.Trace})
						case "hash":
							sampled[l.I] = l.Hash
						}
					}
					if len(r.viols) > 40 {
						stopFlag = true
					}
					mu.Unlock()
					// hashes of non-trivial runs
					if b, err := os.ReadFile(res.out + ".hashes"); err == nil {
						mu.Lock()
						for i := 0; i+8 <= len(b); i += 8 {
							r.hashes[binary.LittleEndian.Uint64(b[i:])] = struct{}{}
						}
						mu.Unlock()
					}
					if res.crashed {
						mu.Lock()
						r.crashes = append(r.crashes, crashRec{run: res.crashRun, seed: seed, stderr: res.stderr})
						// runs before the crash are not summarised; count them roughly as executed
						r.sum.Runs += int(res.crashRun - from)
						if len(r.crashes) > 5 {
							stopFlag = true
						}
						mu.Unlock()
						from = res.crashRun + 1
						continue
					}
					if res.hang {
						mu.Lock()
						r.hangs = append(r.hangs, res.crashRun)
						if len(r.hangs) > 2 {
							stopFlag = true
						}
						mu.Unlock()
						from = res.crashRun + 1
						continue
					}
					break
				}
			}
		}()
	}
	for f := uint64(0); f < tc.runs; f += tc.chunk {
		to := f + tc.chunk
		if to > tc.runs {
			to = tc.runs
		}
		jobs <- job{f, to}
	}
	close(jobs)
	wg.Wait()

	// determinism re-execution of the sampled runs in other processes
	var idxs []uint64
	for i := range sampled {
		idxs = append(idxs, i)
	}
	sort.Slice(idxs, func(a, b int) bool { return idxs[a] < idxs[b] })
	if len(idxs) > 400 {
		idxs = idxs[:400]
	}
	if len(idxs) > 0 {
		parts := 8
		var wg2 sync.WaitGroup
		for p := 0; p < parts; p++ {
			var only []uint64
			for k, i := range idxs {
				if k%parts == p {
					only = append(only, i)
				}
			}
			if len(only) == 0 {
				continue
			}
			wg2.Add(1)
			go func(only []uint64) {
				defer wg2.Done()
				res := runWorker(bin, work, sim.WorkerSpec{Mode: "search", Prop: prop, Seed: seed, Only: only}, 20*time.Minute)
				mu.Lock()
				defer mu.Unlock()
				for _, l := range res.lines {
					if l.T == "hash" {
						r.detChecked++
						if sampled[l.I] != l.Hash {
							r.detMismatch++
							fmt.Fprintf(os.Stderr, "nondeterminism: prop=%s seed=%d run=%d hash %s vs %s\n", prop, seed, l.I, sampled[l.I], l.Hash)
						}
					}
				}
			}(only)
		}
		wg2.Wait()
	}
	return r
}

func minimise(work, prop string, v sim.Violation, vr violRec) (*sim.Violation, *sim.Scenario, string, []string, string) {
	bin := filepath.Join(root, "bin", "worker.test")
	scPath := filepath.Join(work, fmt.Sprintf("min-%d.json", vr.run))
	os.WriteFile(scPath, vr.sc.JSON(), 0o644)
	res := runWorker(bin, work, sim.WorkerSpec{Mode: "minimise", Prop: prop, Scenario: scPath, Sig: v.Sig()}, 10*time.Minute)
	for _, l := range res.lines {
		if l.T == "minimised" {
			for i := range l.Viol {
				if l.Viol[i].Sig() == v.Sig() {
					return &l.Viol[i], l.Scenario, l.Hash, l.Trace, l.Note
				}
			}
			return nil, nil, "", nil, "minimised scenario no longer fails"
		}
	}
	return nil, nil, "", nil, "minimiser produced no result: " + tail(res.stderr, 5)
}

func replayOriginal(work, prop string, v sim.Violation, vr violRec) (*sim.Violation, *sim.Scenario, string, []string, string) {
	bin := filepath.Join(root, "bin", "worker.test")
	scPath := filepath.Join(work, fmt.Sprintf("orig-%d.json", vr.run))
	os.WriteFile(scPath, vr.sc.JSON(), 0o644)
	for try := 0; try < 3; try++ {
		res := runWorker(bin, work, sim.WorkerSpec{Mode: "replay", Prop: prop, Scenario: scPath}, 10*time.Minute)
		for _, l := range res.lines {
			if l.T == "replay" {
				for i := range l.Viol {
					if l.Viol[i].Sig() == v.Sig() {
						return &l.Viol[i], l.Scenario, l.Hash, l.Trace, "minimiser failed"
					}
				}
			}
		}
	}
	return nil, nil, "", nil, "original scenario did not reproduce either"
}

func writeReplay(prop string, v sim.Violation, sc *sim.Scenario, hash string, trace []string, vr violRec) string {
	rf := replayFile{Property: prop, Rule: v.Rule, Seed: vr.seed, Run: vr.run, Engine: "S", Scenario: sc, Detail: v.Detail, Trace: trace, Tree: gitRev()}
	rf.Expected.Signature = v.Sig()
	rf.Expected.TraceHash = hash
	b, _ := json.MarshalIndent(rf, "", " ")
	path := filepath.Join(root, "replays", fmt.Sprintf("%s-%s-%s.json", prop, v.Rule, hash))
	os.WriteFile(path, b, 0o644)
	return path
}

func writeCrashReplay(prop string, v sim.Violation, sc *sim.Scenario, cr crashRec) string {
	rf := replayFile{Property: prop, Rule: v.Rule, Seed: cr.seed, Run: cr.run, Engine: "S", Scenario: sc, Detail: v.Detail, Tree: gitRev(), Crash: tail(cr.stderr, 40)}
	rf.Expected.Signature = v.Sig()
	b, _ := json.MarshalIndent(rf, "", " ")
	path := filepath.Join(root, "replays", fmt.Sprintf("%s-%s-%d-%d.json", prop, v.Rule, cr.seed, cr.run))
	os.WriteFile(path, b, 0o644)
	return path
}

func replayQuiet(path string) int {
	c := exec.Command(os.Args[0], "replay", path)
	c.Env = os.Environ()
	b, err := c.CombinedOutput()
	_ = b
	if err == nil {
		return 0
	}
	if ee, ok := err.(*exec.ExitError); ok {
		return ee.ExitCode()
	}
	return 2
}

// minimiseCrash shrinks a scenario whose run kills the worker (one process
// per candidate).
func minimiseCrash(work, prop string, sc *sim.Scenario) *sim.Scenario {
	bin := filepath.Join(root, "bin", "worker.test")
	n := 0
	crashes := func(c *sim.Scenario) bool {
		n++
		if n > 120 {
			return false
		}
		p := filepath.Join(work, fmt.Sprintf("crashcand-%d.json", n))
		os.WriteFile(p, c.JSON(), 0o644)
		res := runWorker(bin, work, sim.WorkerSpec{Mode: "replay", Prop: prop, Scenario: p}, 2*time.Minute)
		return res.crashed && strings.Contains(res.stderr, "github.com/at-wat/mqtt-go")
	}
	if !crashes(sc) {
		return sc
	}
	return sim.Minimise(sc, crashes)
}

// libraryDeadlock inspects the goroutine dump the watchdog kept for a hung
// run: a goroutine blocked in sync.(*Mutex/RWMutex) with a library frame right
// above the sync frames means the client deadlocked.
func libraryDeadlock(prop string, run uint64) string {
	b, err := os.ReadFile(filepath.Join(root, "replays", fmt.Sprintf("hang-%s-%d.stack.txt", prop, run)))
	if err != nil {
		return ""
	}
	for _, blk := range strings.Split(string(b), "\n\n") {
		lines := strings.Split(blk, "\n")
		if len(lines) < 3 || !(strings.Contains(lines[0], "[sync.Mutex.Lock") || strings.Contains(lines[0], "[sync.RWMutex.") || strings.Contains(lines[0], "[semacquire")) {
			continue
		}
		for _, ln := range lines[1:] {
			if strings.HasPrefix(ln, "\t") {
				continue
			}
			if strings.HasPrefix(ln, "sync.") || strings.HasPrefix(ln, "internal/") || strings.HasPrefix(ln, "runtime.") {
				continue
			}
			if strings.HasPrefix(ln, "github.com/at-wat/mqtt-go.") {
				fn := ln
				if j := strings.LastIndexByte(fn, '('); j > 0 {
					fn = fn[:j]
				}
				return "goroutine blocked on a mutex in " + strings.TrimPrefix(fn, "github.com/at-wat/mqtt-go.")
			}
			break
		}
	}
	return ""
}
