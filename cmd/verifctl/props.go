package main

import (
	"verif/sim"
)

func propHasEngineS(prop string) bool { return true }

func levelOf(prop string) string {
	if prop == "C11" {
		return "fault_enumeration"
	}
	return "exploration"
}

func assumptionsOf(prop string) []string {
	a := []string{
		"the broker reference model (own MQTT 3.1.1 codec, QoS 1/2 receiver, session state) is a correct reading of the specification",
		"testing/synctest of go1.26.8 implements the fake clock and quiescence detection as documented",
		"determinism rests on GOMAXPROCS=1 workers, one external event per step and canonical per-step traces; it is re-measured on a sample of runs in every check",
		"Transport.Write never blocks (stalled writes are outside the fault space) and never returns n<len with a nil error",
		"code behind the Dialer seam (TCP/TLS/WebSocket dialling) is not executed",
	}
	return a
}

func extraCoverage(prop string, agg *sim.Summary) map[string]interface{} {
	if prop == "C11" {
		cells := sim.C11Matrix()
		var names []string
		for _, c := range cells {
			names = append(names, c.String())
		}
		return map[string]interface{}{
			"matrix_cells":            len(cells),
			"matrix_cells_enumerated": names,
			"matrix_note":             "runs 0..matrix_cells-1 of every batch are the complete call x step x cause matrix (enumerated, exhaustive for that finite matrix); the remaining runs are seeded random combinations",
		}
	}
	return nil
}

func selftest() int { return selftestImpl() }
