#!/bin/sh
# usage: trypatch.sh <ID> <n> [props...]  — verifies an agent's patch+demo in its scratch worktree, then runs checks against it in /repo
id=$1; n=$2; shift 2
export GOFLAGS=-mod=mod GOPROXY=off GOSUMDB=off VERIF_NO_EVIDENCE=1
W=/tmp/mut/$id
cd $W || exit 9
git checkout -q -- . ; rm -f zz_demo*_test.go
git apply patch$n.diff || { echo "PATCH-DOES-NOT-APPLY-IN-WORKTREE"; exit 9; }
go build ./... || { echo BUILD-FAIL; git checkout -q -- .; exit 9; }
go test -count=1 . >/tmp/mut/$id.base.log 2>&1 && echo "existing-tests: PASS with patch" || echo "existing-tests: FAIL with patch"
cp demo${n}_test.go.txt zz_demo${n}_test.go
go test -count=1 -run 'Demo' . >/tmp/mut/$id.demo_with.log 2>&1 && echo "demo with patch: PASS (unexpected)" || echo "demo with patch: FAIL (expected)"
git checkout -q -- .
go test -count=1 -run 'Demo' . >/tmp/mut/$id.demo_without.log 2>&1 && echo "demo without patch: PASS (expected)" || echo "demo without patch: FAIL (unexpected)"
rm -f zz_demo*_test.go
# now against /repo
cd /repo && git apply $W/patch$n.diff 2>/dev/null || git apply --3way $W/patch$n.diff || { echo "PATCH-DOES-NOT-APPLY-IN-REPO"; git checkout -q HEAD -- .; exit 8; }
git -C /repo reset -q 2>/dev/null
(cd /repo && go build ./... ) || { git -C /repo checkout -q -- .; echo REPO-BUILD-FAIL; exit 8; }
cd /verif
for p in "$@"; do
  ./check $p quick 2>&1 | grep -E "VIOLATION|OK prop|MACHINERY|KNOWN|  C[0-9]+/" | head -6
done
git -C /repo checkout -q -- .
git -C /repo status --short | head -3
