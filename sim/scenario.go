package sim

import (
	"encoding/json"
	"os"
)

// Scenario is everything one run does. It is generated from the seed before
// the bubble starts; the run itself draws no random numbers.
type Scenario struct {
	Family string  `json:"family"`
	Prop   string  `json:"prop"`
	Seed   uint64  `json:"seed"`
	Cfg    Config  `json:"cfg"`
	Ops    []Op    `json:"ops"`
	Faults []Fault `json:"faults,omitempty"`
	Script []Out   `json:"script,omitempty"`
	// HorizonUs: fake time after which no further fault fires.
	HorizonUs int64 `json:"horizon_us"`
	// EndUs: fake time at which the run is judged (quiescent-complete is
	// verified there) and torn down.
	EndUs int64 `json:"end_us"`
}

// Config holds the knobs of one run.
type Config struct {
	Client            string `json:"client"` // base | retry | reconnect | keepalive
	ClientID          string `json:"client_id,omitempty"`
	CleanSession      bool   `json:"clean,omitempty"`
	KeepAliveSec      uint16 `json:"keepalive_s,omitempty"`
	User              string `json:"user,omitempty"`
	Pass              string `json:"pass,omitempty"`
	WillTopic         string `json:"will_topic,omitempty"`
	WillPay           string `json:"will_pay,omitempty"`
	WillQoS           byte   `json:"will_qos,omitempty"`
	WillRetain        bool   `json:"will_retain,omitempty"`
	ProtoLevel3       bool   `json:"lvl3,omitempty"`
	PingIntervalUs    int64  `json:"ping_us,omitempty"`
	TimeoutUs         int64  `json:"timeout_us,omitempty"`
	ReconnBaseUs      int64  `json:"reconn_base_us,omitempty"`
	ReconnMaxUs       int64  `json:"reconn_max_us,omitempty"`
	ResponseTimeoutUs int64  `json:"resp_timeout_us,omitempty"`
	AlwaysResub       bool   `json:"always_resub,omitempty"`
	DirectQoS0        bool   `json:"direct_qos0,omitempty"`
	MaxPayloadLen     int    `json:"max_payload,omitempty"`
	EarlyConnAck      bool   `json:"early_connack,omitempty"`    // the peer sends an accepting CONNACK before it has read the CONNECT (engine R only)
	CloseErr          bool   `json:"close_err,omitempty"`        // Transport.Close() tears the connection down but returns an error (TLS close_notify to a dead peer, second close)
	StateCBReenters   bool   `json:"statecb_reenters,omitempty"` // the application's ConnState callback looks at the client it is called for (Done())
	OnErrorReenters   bool   `json:"onerror_reenters,omitempty"` // the application's OnError callback publishes a QoS 0 diagnostic through the same client

	BrokerMethod string   `json:"broker_method,omitempty"` // "A" (deliver on PUBLISH) | "B" (deliver on PUBREL)
	EarlyReply   bool     `json:"early_reply,omitempty"`   // the broker's answer is in the read buffer before Write returns (single-writer scenarios only)
	DeafToPings  bool     `json:"deaf_to_pings,omitempty"` // a silent period swallows PINGREQ/PINGRESP only: the peer keeps talking (acknowledgements, PUBLISHes) but no longer answers pings
	HoldAcks     bool     `json:"hold_acks,omitempty"`     // broker withholds all acks except CONNACK/PINGRESP; Script releases them
	AutoPubRel   bool     `json:"auto_pubrel,omitempty"`   // broker answers PUBREC from the client with PUBREL
	LatC2BUs     int64    `json:"lat_c2b_us"`
	LatB2CUs     int64    `json:"lat_b2c_us"`
	JitterUs     []int64  `json:"jitter_us,omitempty"` // added to successive broker->client deliveries, cycled
	DialLatUs    int64    `json:"dial_lat_us"`
	Frag         []int    `json:"frag,omitempty"`     // broker->client fragment sizes, cycled; empty = whole packets
	Coalesce     bool     `json:"coalesce,omitempty"` // responses of one request delivered in one read
	InitIDs      []uint32 `json:"init_ids,omitempty"` // initial id counter per BaseClient, cycled (H1)
	GrantQoS     []byte   `json:"grant,omitempty"`    // SUBACK codes granted in order, cycled; empty = requested qos

	SlowHandlerUs int64            `json:"slow_handler_us,omitempty"`
	Yields        map[string]int64 `json:"yields,omitempty"` // H2 site -> park duration (us)

	// Handler topology for C20 (see handlers.go)
	Mux           []MuxReg `json:"mux,omitempty"`
	MuxAsyncOuter bool     `json:"mux_async_outer,omitempty"`

	// keepalive family (C13 part 1)
	KAIntervalUs int64    `json:"ka_interval_us,omitempty"`
	KATimeoutUs  int64    `json:"ka_timeout_us,omitempty"`
	KAPings      []KAPing `json:"ka_pings,omitempty"`
	KACancelUs   int64    `json:"ka_cancel_us,omitempty"` // parent ctx cancelled at this time (0 = never)
	KAPreCancel  bool     `json:"ka_precancel,omitempty"`
	KADeadline   bool     `json:"ka_deadline,omitempty"` // the parent context ends by a deadline of its own at KACancelUs instead of being cancelled
}

// KAPing is the scripted outcome of the i-th Ping in the keepalive family.
type KAPing struct {
	Kind    string `json:"kind"` // answer | never | fail
	DelayUs int64  `json:"delay_us,omitempty"`
}

// MuxReg is one ServeMux registration.
type MuxReg struct {
	Filter string `json:"filter"`
	Async  bool   `json:"async,omitempty"`
	ParkUs int64  `json:"park_us,omitempty"` // handler parks this long before scribbling
	Retain bool   `json:"retain,omitempty"`  // the handler returns at once and goes on using its message on a goroutine of its own
	Embed  string `json:"embed,omitempty"`   // "mux" | "async": the handler is an application type that embeds *ServeMux / ServeAsync and overrides Serve
}

// Op is one application action.
type Op struct {
	AtUs  int64  `json:"at_us"`
	Actor int    `json:"actor"`
	Kind  string `json:"kind"`
	Cli   int    `json:"cli,omitempty"` // base family: which BaseClient (0-based)

	QoS      byte     `json:"qos,omitempty"`
	Topic    string   `json:"topic,omitempty"`
	Token    string   `json:"token,omitempty"`
	Retain   bool     `json:"retain,omitempty"`
	DupIn    bool     `json:"dup_in,omitempty"` // the application's Message already has Dup=true (reused / forwarded message)
	PresetID uint16   `json:"preset_id,omitempty"`
	Subs     []SubReq `json:"subs,omitempty"`
	Topics   []string `json:"topics,omitempty"`

	CtxTimeoutUs int64 `json:"ctx_timeout_us,omitempty"` // deadline of this call's context on the fake clock
	Target       int   `json:"target,omitempty"`         // cancel: op whose ctx is cancelled; retryhandle: op whose error handle is used
	Handler      int   `json:"handler,omitempty"`        // handle: handler number (0 = nil handler)
	PayLen       int   `json:"paylen,omitempty"`         // publish: pad payload to this length
	OnDial       int   `json:"on_dial,omitempty"`        // engine R: released when dial number OnDial completes (instead of at AtUs)
	Repeat       int   `json:"repeat,omitempty"`         // probe: number of iterations
	SpinUs       int64 `json:"spin_us,omitempty"`        // engine R: real-time delay between the release of this op and its call
}

// Fault is one network / broker misbehaviour addressed by stable coordinates.
type Fault struct {
	Kind   string `json:"kind"`
	Conn   int    `json:"conn,omitempty"` // connection = dial number (1-based)
	N      int    `json:"n,omitempty"`    // packet index (c2b for cutBefore/cutAfter/dropC2B/writeErr; b2c for cutAfterResp/dropB2C)
	AtUs   int64  `json:"at_us,omitempty"`
	Reset  bool   `json:"reset,omitempty"` // reset instead of EOF
	Code   byte   `json:"code,omitempty"`
	Prefix int    `json:"prefix,omitempty"`
}

// Out is unsolicited / scripted broker->client traffic.
type Out struct {
	Conn int   `json:"conn"`
	AtUs int64 `json:"at_us,omitempty"`
	// AfterConnack: fire right after the CONNACK of Conn was released (same
	// read if Glue) instead of at AtUs.
	AfterConnack bool   `json:"after_connack,omitempty"`
	Glue         bool   `json:"glue,omitempty"`
	DelayUs      int64  `json:"delay_us,omitempty"` // after the trigger
	Kind         string `json:"kind"`               // pkt | raw | release | cut
	Pkt          *Pkt   `json:"pkt,omitempty"`
	RawHex       string `json:"raw,omitempty"`
	Held         int    `json:"held,omitempty"`  // release: index into the broker's held responses
	Helds        []int  `json:"helds,omitempty"` // releaseglued: several held responses in one read
	EOFAfter     bool   `json:"eof_after,omitempty"`
	Frag         []int  `json:"frag,omitempty"`
	Class        string `json:"class,omitempty"` // C06: corruption class, for the oracle
}

func (sc *Scenario) Clone() *Scenario {
	b, _ := json.Marshal(sc)
	var out Scenario
	_ = json.Unmarshal(b, &out)
	return &out
}

func (sc *Scenario) JSON() []byte {
	b, _ := json.Marshal(sc)
	return b
}

func LoadScenario(path string) (*Scenario, error) {
	b, err := os.ReadFile(path)
	if err != nil {
		return nil, err
	}
	var sc Scenario
	if err := json.Unmarshal(b, &sc); err != nil {
		return nil, err
	}
	return &sc, nil
}
