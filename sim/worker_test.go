package sim

import (
	"bufio"
	"encoding/binary"
	"encoding/json"
	"fmt"
	"os"
	"runtime"
	"runtime/debug"
	"sync/atomic"
	"testing"
	"time"
)

// bigRead: the run made the client allocate a large packet buffer.
func bigRead(res *Result) bool {
	for i := len(res.Trace) - 1; i >= 0 && i > len(res.Trace)-12; i-- {
		if res.Trace[i].Kind == "connstat" && res.Trace[i].N > 1<<20 {
			return true
		}
	}
	return false
}

var raceSeen int64

// newRaceText returns what the race detector appended to its log since the
// last call (GORACE log_path=<out>.race => <out>.race.<pid>).
func newRaceText(out string) string {
	name := fmt.Sprintf("%s.race.%d", out[:len(out)-len(".out")], os.Getpid())
	b, err := os.ReadFile(name)
	if err != nil || int64(len(b)) <= raceSeen {
		return ""
	}
	txt := string(b[raceSeen:])
	raceSeen = int64(len(b))
	return txt
}

func nontrivial(sc *Scenario, res *Result) bool {
	fired := 0
	for _, n := range res.Fired {
		fired += n
	}
	causes := 0
	for _, op := range sc.Ops {
		switch op.Kind {
		case "cancel", "close", "disconnect", "retryhandle":
			causes++
		}
		if op.CtxTimeoutUs > 0 {
			causes++
		}
	}
	return (fired > 0 || len(sc.Script) > 0 || causes > 0) && len(sc.Ops) >= 2
}

func TestWorker(t *testing.T) {
	specPath := os.Getenv("VERIF_SPEC")
	if specPath == "" {
		t.Skip("no VERIF_SPEC")
	}
	b, err := os.ReadFile(specPath)
	if err != nil {
		t.Fatal(err)
	}
	var spec WorkerSpec
	if err := json.Unmarshal(b, &spec); err != nil {
		t.Fatal(err)
	}
	f, err := os.Create(spec.Out)
	if err != nil {
		t.Fatal(err)
	}
	defer f.Close()
	w := bufio.NewWriter(f)
	defer w.Flush()
	emit := func(l Line) {
		bb, _ := json.Marshal(l)
		w.Write(bb)
		w.WriteByte('\n')
	}
	debug.SetGCPercent(-1)
	// watchdog: lives outside every bubble, uses the real clock
	stop := make(chan struct{})
	defer close(stop)
	var curRun atomic.Uint64
	go func() {
		last := heartbeat.Load()
		idle := 0
		for {
			select {
			case <-stop:
				return
			case <-time.After(2 * time.Second):
			}
			h := heartbeat.Load()
			if h == last {
				idle++
			} else {
				idle = 0
				last = h
			}
			if idle >= 30 {
				bb, _ := json.Marshal(Line{T: "hang", I: curRun.Load()})
				w.Write(bb)
				w.WriteByte('\n')
				w.Flush()
				f.Close()
				buf := make([]byte, 1<<20)
				n := runtime.Stack(buf, true)
				os.WriteFile(spec.Out+".hangstack", buf[:n], 0o644)
				os.Exit(3)
			}
		}
	}()
	run := func(sc *Scenario) *Result {
		heartbeat.Add(1)
		if spec.Race {
			return RunScenarioRace(t, sc)
		}
		return RunScenario(t, sc)
	}

	switch spec.Mode {
	case "search":
		cur, _ := os.Create(spec.Out + ".cur")
		defer cur.Close()
		hf, _ := os.Create(spec.Out + ".hashes")
		defer hf.Close()
		hw := bufio.NewWriter(hf)
		defer hw.Flush()
		sum := &Summary{Fired: map[string]int{}, Probes: map[string]int{}, Families: map[string]int{}}
		start := time.Now()
		nviol := 0
		maxViol := spec.MaxViol
		if maxViol == 0 {
			maxViol = 8
		}
		var idxs []uint64
		if len(spec.Only) > 0 {
			idxs = spec.Only
		} else {
			for i := spec.From; i < spec.To; i++ {
				idxs = append(idxs, i)
			}
		}
		for n, i := range idxs {
			curRun.Store(i)
			cur.WriteAt([]byte(fmt.Sprintf("%020d", i)), 0)
			sc := Generate(spec.Prop, spec.Seed, i)
			res := run(sc)
			sum.Runs++
			sum.Steps += int64(res.Steps)
			sum.Events += int64(res.Events)
			sum.FakeNs += res.FakeNs
			sum.Deferred += res.Deferred
			sum.Families[sc.Family]++
			for k, v := range res.Fired {
				sum.Fired[k] += v
			}
			for k, v := range res.Probes {
				sum.Probes[k] += v
			}
			if res.CapHit != "" {
				sum.CapHits++
			}
			if res.HarnessErr != "" {
				sum.HarnessErrs++
				if sum.HarnessMsg == "" {
					sum.HarnessMsg = fmt.Sprintf("run %d: %s", i, res.HarnessErr)
				}
			}
			if nontrivial(sc, res) {
				sum.Nontrivial++
				var hb [8]byte
				binary.LittleEndian.PutUint64(hb[:], res.Hash)
				hw.Write(hb[:])
			}
			if len(spec.Only) > 0 || (spec.SampleEvery > 0 && i%spec.SampleEvery == 0) {
				emit(Line{T: "hash", I: i, Hash: fmt.Sprintf("%016x", res.Hash)})
			}
			if spec.Trace && (os.Getenv("VERIF_TRACE_I") == "" || os.Getenv("VERIF_TRACE_I") == fmt.Sprint(i)) {
				l := Line{T: "trace", I: i, Scenario: sc}
				for k := range res.Trace {
					l.Trace = append(l.Trace, res.Trace[k].Human())
				}
				emit(l)
			}
			if spec.Race {
				if txt := newRaceText(spec.Out); txt != "" {
					emit(Line{T: "race", I: i, Scenario: sc, Note: txt})
					w.Flush()
				}
			}
			vs := Check(spec.Prop, sc, res)
			if len(vs) > 0 {
				sum.ViolRuns++
				if nviol < maxViol {
					nviol++
					vl := Line{T: "viol", I: i, Viol: vs, Scenario: sc, Hash: fmt.Sprintf("%016x", res.Hash)}
					if len(res.Trace) < 4000 {
						for k := range res.Trace {
							vl.Trace = append(vl.Trace, res.Trace[k].Human())
						}
					}
					emit(vl)
					w.Flush()
				}
			}
			if len(sum.Samples) < 2 && nontrivial(sc, res) && len(spec.Only) == 0 {
				sum.Samples = append(sum.Samples, sc)
			}
			if n%20 == 19 || bigRead(res) {
				runtime.GC()
			}
		}
		sum.WallS = time.Since(start).Seconds()
		emit(Line{T: "summary", Summary: sum})
	case "replay":
		sc, err := LoadScenario(spec.Scenario)
		if err != nil {
			t.Fatal(err)
		}
		res := run(sc)
		vs := Check(spec.Prop, sc, res)
		l := Line{T: "replay", Viol: vs, Hash: fmt.Sprintf("%016x", res.Hash), Scenario: sc, Note: res.CapHit + res.HarnessErr}
		for i := range res.Trace {
			l.Trace = append(l.Trace, res.Trace[i].Human())
		}
		emit(l)
	case "minimise":
		sc, err := LoadScenario(spec.Scenario)
		if err != nil {
			t.Fatal(err)
		}
		n := 0
		test := func(c *Scenario) bool {
			n++
			if n%20 == 0 {
				runtime.GC()
			}
			res := run(c)
			for _, v := range Check(spec.Prop, c, res) {
				if v.Sig() == spec.Sig {
					return true
				}
			}
			return false
		}
		min := Minimise(sc, test)
		res := run(min)
		vs := Check(spec.Prop, min, res)
		l := Line{T: "minimised", Viol: vs, Hash: fmt.Sprintf("%016x", res.Hash), Scenario: min, Note: fmt.Sprintf("candidates=%d", n)}
		for i := range res.Trace {
			l.Trace = append(l.Trace, res.Trace[i].Human())
		}
		emit(l)
	default:
		t.Fatalf("unknown mode %q", spec.Mode)
	}
}
