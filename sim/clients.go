package sim

import (
	"context"
	"errors"
	"fmt"
	"io"
	"runtime"
	"sort"
	"strings"
	"time"

	mqtt "github.com/at-wat/mqtt-go"
)

type actor struct {
	id int
	ch chan int
}

// classify renders which documented sentinels errors.Is finds in err.
func classify(err error) string {
	if err == nil {
		return ""
	}
	var out []string
	add := func(name string, ok bool) {
		if ok {
			out = append(out, name)
		}
	}
	add("closed", errors.Is(err, mqtt.ErrClosedTransport))
	add("invpkt", errors.Is(err, mqtt.ErrInvalidPacket))
	add("invlen", errors.Is(err, mqtt.ErrInvalidPacketLength))
	add("invrune", errors.Is(err, mqtt.ErrInvalidRune))
	add("paylen", errors.Is(err, mqtt.ErrPayloadLenExceeded))
	add("invqos", errors.Is(err, mqtt.ErrInvalidQoS))
	add("notconn", errors.Is(err, mqtt.ErrNotConnected))
	add("canceled", errors.Is(err, context.Canceled))
	add("deadline", errors.Is(err, context.DeadlineExceeded))
	add("eof=", err == io.EOF)
	add("eof", errors.Is(err, io.EOF))
	add("pingtimeout", errors.Is(err, mqtt.ErrPingTimeout))
	add("connfailed", errors.Is(err, mqtt.ErrConnectionFailed))
	add("invsuback", errors.Is(err, mqtt.ErrInvalidSubAck))
	add("closedclient", errors.Is(err, mqtt.ErrClosedClient))
	add("simreset", errors.Is(err, ErrSimReset))
	add("simclosed", errors.Is(err, ErrSimClosed))
	add("simwrite", errors.Is(err, ErrSimWrite))
	add("simwriteeof", errors.Is(err, ErrSimWriteEOF))
	add("simlook", errors.Is(err, ErrSimLookalike))
	add("simbroken", errors.Is(err, ErrSimBroken))
	add("simdial", errors.Is(err, ErrSimDial))
	var rte *mqtt.RequestTimeoutError
	add("reqtimeout", errors.As(err, &rte))
	_, isRetry := err.(mqtt.ErrorWithRetry)
	add("retry", isRetry)
	var ce *mqtt.ConnectionError
	if errors.As(err, &ce) {
		out = append(out, fmt.Sprintf("code%d", int(ce.Code)))
	}
	if len(out) == 0 {
		return "other"
	}
	return strings.Join(out, "|")
}

func hasCls(cls, name string) bool {
	for _, p := range strings.Split(cls, "|") {
		if p == name {
			return true
		}
	}
	return false
}

func (s *Sim) connectOpts() []mqtt.ConnectOption {
	cfg := &s.sc.Cfg
	var opts []mqtt.ConnectOption
	if cfg.CleanSession {
		opts = append(opts, mqtt.WithCleanSession(true))
	}
	if cfg.KeepAliveSec > 0 {
		opts = append(opts, mqtt.WithKeepAlive(cfg.KeepAliveSec))
	}
	if cfg.User != "" || cfg.Pass != "" {
		opts = append(opts, mqtt.WithUserNamePassword(cfg.User, cfg.Pass))
	}
	if cfg.WillTopic != "" {
		opts = append(opts, mqtt.WithWill(&mqtt.Message{Topic: cfg.WillTopic, Payload: []byte(cfg.WillPay), QoS: mqtt.QoS(cfg.WillQoS), Retain: cfg.WillRetain}))
	}
	if cfg.ProtoLevel3 {
		opts = append(opts, mqtt.WithProtocolLevel(mqtt.ProtocolLevel3))
	}
	return opts
}

func (s *Sim) setupClients() {
	cfg := &s.sc.Cfg
	switch cfg.Client {
	case "retry", "reconnect":
		s.retry = &mqtt.RetryClient{
			ResponseTimeout:     time.Duration(cfg.ResponseTimeoutUs) * time.Microsecond,
			DirectlyPublishQoS0: cfg.DirectQoS0,
		}
		s.retry.OnError = func(err error) {
			s.log(Rec{Kind: "onerror", Err: err.Error(), Cls: classify(err)})
			s.yield("app.onError") // a slow application callback (runs on the task goroutine)
			if cfg.OnErrorReenters && !s.race {
				// an application that reports the failure through the very client
				s.mu.Lock()
				s.diagN++
				n := s.diagN
				s.mu.Unlock()
				if n <= 20 {
					q := mqtt.QoS0
					if cfg.DirectQoS0 {
						// a direct QoS 0 publish would sit on the connect lock of the next
						// connection (engine S cannot schedule that): queue it instead
						q = mqtt.QoS1
					}
					_ = s.retry.Publish(context.Background(), &mqtt.Message{Topic: "diag", QoS: q, Payload: []byte(fmt.Sprintf("diag%d", n))})
				}
			}
		}
	}
	if cfg.Client == "reconnect" {
		opts := []mqtt.ReconnectOption{
			mqtt.WithRetryClient(s.retry),
			mqtt.WithReconnectWait(time.Duration(cfg.ReconnBaseUs)*time.Microsecond, time.Duration(cfg.ReconnMaxUs)*time.Microsecond),
			mqtt.WithAlwaysResubscribe(cfg.AlwaysResub),
		}
		if cfg.PingIntervalUs > 0 {
			opts = append(opts, mqtt.WithPingInterval(time.Duration(cfg.PingIntervalUs)*time.Microsecond))
		}
		if cfg.TimeoutUs > 0 {
			opts = append(opts, mqtt.WithTimeout(time.Duration(cfg.TimeoutUs)*time.Microsecond))
		}
		rc, err := mqtt.NewReconnectClient(&SimDialer{s}, opts...)
		if err != nil {
			panic(err)
		}
		s.reconn = rc
	}
}

// baseFor returns (creating on first use) BaseClient number i of the base
// family. Connection number = i+1.
func (s *Sim) baseFor(i int) *mqtt.BaseClient {
	s.mu.Lock()
	if i < len(s.bases) && s.bases[i] != nil {
		b := s.bases[i]
		s.mu.Unlock()
		return b
	}
	c := s.newConn(i + 1)
	s.mu.Unlock()
	return s.newBase(c)
}

func (s *Sim) curBase() *mqtt.BaseClient {
	if s.retry != nil {
		return s.retry.Client()
	}
	return nil
}

// connecting reports whether some BaseClient is inside Connect (holding its
// connect mutex) as far as the harness can tell.
func (s *Sim) anyConnecting() bool {
	if s.connAckParked.Load() > 0 {
		return true
	}
	s.mu.Lock()
	defer s.mu.Unlock()
	for _, c := range s.conns {
		if c == nil {
			continue
		}
		c.mu.Lock()
		// until a state callback (Active/Closed/Disconnected) shows that Connect is
		// over: the transport may be dead while Connect still holds its lock
		x := c.connecting || c.activeCB
		c.mu.Unlock()
		if x {
			return true
		}
	}
	return false
}

func (s *Sim) isDirect(op *Op) bool {
	cl := s.sc.Cfg.Client
	if cl != "retry" && cl != "reconnect" {
		return false
	}
	switch op.Kind {
	case "ping":
		return true
	case "publish":
		return s.sc.Cfg.DirectQoS0 && op.QoS == 0
	}
	return false
}

// releaseOp is the scheduler event that hands op i to its actor.
func (s *Sim) releaseOp(i int) {
	op := &s.sc.Ops[i]
	st := s.opState[i]
	switch op.Kind {
	case "cancel":
		if op.Target >= 0 && op.Target < len(s.opState) {
			t := s.opState[op.Target]
			t.mu.Lock()
			t.preCancel = true
			c := t.cancel
			t.mu.Unlock()
			s.log(Rec{Kind: "cause", Op: op.Target + 1, S: "cancel"})
			if c != nil {
				c()
			}
		}
		return
	case "close":
		var b *mqtt.BaseClient
		if s.sc.Cfg.Client == "base" {
			s.mu.Lock()
			if op.Cli < len(s.bases) {
				b = s.bases[op.Cli]
			}
			s.mu.Unlock()
		} else {
			b = s.curBase()
		}
		if b != nil {
			s.log(Rec{Kind: "cause", S: "localclose", Conn: s.connOf(b)})
			b.Close()
		}
		return
	}
	if !s.race {
		if s.isDirect(op) && (s.curBase() == nil || s.anyConnecting()) {
			st.mu.Lock()
			n := st.deferred
			st.deferred++
			st.mu.Unlock()
			if n > 200 {
				s.log(Rec{Kind: "skipped", Op: i + 1, S: "direct call while connecting"})
				return
			}
			s.deferred++
			s.after(us(20)+int64(n), "deferred-op", func() { s.releaseOp(i) })
			return
		}
		if s.sc.Cfg.Client == "base" && op.Kind != "connect" && op.Kind != "handle" && op.Kind != "retryhandle" {
			// a call on a BaseClient whose Connect is still in progress would
			// sit on a sync.RWMutex (not a durable block)
			if s.baseConnecting(op.Cli) {
				st.mu.Lock()
				n := st.deferred
				st.deferred++
				st.mu.Unlock()
				if n > 200 {
					s.log(Rec{Kind: "skipped", Op: i + 1, S: "call while connecting"})
					return
				}
				s.deferred++
				s.after(us(20)+int64(n), "deferred-op", func() { s.releaseOp(i) })
				return
			}
		}
		if op.Kind == "retryhandle" && s.baseConnecting(op.Cli) {
			st.mu.Lock()
			n := st.deferred
			st.deferred++
			st.mu.Unlock()
			if n <= 200 {
				s.deferred++
				s.after(us(20)+int64(n), "deferred-op", func() { s.releaseOp(i) })
				return
			}
		}
	}
	if s.race && s.isDirect(op) && s.curBase() == nil {
		s.log(Rec{Kind: "skipped", Op: i + 1, S: "direct call before the first SetClient"})
		return
	}
	s.mu.Lock()
	a := s.actors[op.Actor]
	if a == nil {
		a = &actor{id: op.Actor, ch: make(chan int, len(s.sc.Ops)+1)}
		s.actors[op.Actor] = a
		go func() {
			for j := range a.ch {
				s.execOp(j)
			}
		}()
	}
	s.mu.Unlock()
	a.ch <- i
}

func (s *Sim) baseConnecting(cli int) bool {
	if s.connAckParked.Load() > 0 {
		return true
	}
	c := s.conn(cli + 1)
	if c == nil {
		return false
	}
	c.mu.Lock()
	defer c.mu.Unlock()
	return c.connecting || c.activeCB
}

func (s *Sim) connOf(b *mqtt.BaseClient) int {
	if c, ok := b.Transport.(*Conn); ok {
		return c.k
	}
	return 0
}

func (s *Sim) setConnecting(b *mqtt.BaseClient, v bool) {
	if c, ok := b.Transport.(*Conn); ok {
		c.mu.Lock()
		c.connecting = v
		c.mu.Unlock()
	}
}

func (s *Sim) payload(op *Op) []byte {
	p := op.Token
	if op.PayLen > len(p)+1 {
		p = p + "." + strings.Repeat("x", op.PayLen-len(p)-1)
	}
	return []byte(p)
}

func (s *Sim) execOp(i int) {
	op := &s.sc.Ops[i]
	st := s.opState[i]
	cfg := &s.sc.Cfg
	var ctx context.Context
	var cancel context.CancelFunc
	if op.CtxTimeoutUs > 0 && op.Kind != "muxserve" { // muxserve uses the field as its own park time
		ctx, cancel = context.WithTimeout(context.Background(), time.Duration(op.CtxTimeoutUs)*time.Microsecond)
	} else {
		ctx, cancel = context.WithCancel(context.Background())
	}
	st.mu.Lock()
	st.ctx, st.cancel = ctx, cancel
	st.started = true
	pre := st.preCancel
	st.mu.Unlock()
	if pre {
		cancel()
	}
	if st.gate != nil {
		<-st.gate
	}
	if s.race && op.SpinUs > 0 {
		// engine R: this caller arrives a few microseconds of real time after
		// the others of its instant (fake time does not move meanwhile)
		spinRealMicros(op.SpinUs)
	}
	inv := Rec{Kind: "inv", Op: i + 1, S: op.Kind}
	if pre {
		inv.B = true
	}
	s.log(inv)

	var err error
	extra := ""
	var cli mqtt.Client
	var base *mqtt.BaseClient
	switch cfg.Client {
	case "base":
		base = s.baseFor(op.Cli)
		cli = base
	case "retry":
		cli = s.retry
	case "reconnect":
		cli = s.reconn
	}
	switch op.Kind {
	case "connect":
		if base != nil {
			s.setConnecting(base, true)
		}
		var sp bool
		sp, err = cli.Connect(ctx, cfg.ClientID+op.Token, s.connectOpts()...) // Token: client id suffix (several independent clients in one run)
		if base != nil {
			s.setConnecting(base, false)
		}
		extra = fmt.Sprintf("sp=%v", sp)
	case "rconnect": // manual RetryClient driving
		b := s.retry.Client()
		if b == nil {
			extra = "noclient"
			break
		}
		s.setConnecting(b, true)
		var sp bool
		sp, err = s.retry.Connect(ctx, cfg.ClientID, s.connectOpts()...)
		s.setConnecting(b, false)
		st.mu.Lock()
		st.sp = sp
		st.mu.Unlock()
		extra = fmt.Sprintf("sp=%v", sp)
	case "setclient":
		s.mu.Lock()
		k := len(s.conns) + 1
		c := s.newConn(k)
		s.mu.Unlock()
		b := s.newBase(c)
		s.log(Rec{Kind: "dial", Conn: k, S: "manual"})
		s.log(Rec{Kind: "dialdone", Conn: k, S: "manual"})
		s.retry.SetClient(ctx, b)
	case "afterconnect":
		// what a wrapper does once Connect returned: re-subscribe if the broker
		// lost the session (never on the first connection), then retry
		t := s.opState[op.Target]
		t.mu.Lock()
		terr, ok := t.err, t.returned
		sp := t.sp
		t.mu.Unlock()
		if !ok || terr != nil {
			extra = "connect-failed"
			break
		}
		s.mu.Lock()
		s.manualConnects++
		first := s.manualConnects == 1
		s.mu.Unlock()
		if !first && (!sp || cfg.AlwaysResub) {
			s.retry.Resubscribe(ctx)
			extra = "resubscribe+retry"
		} else {
			extra = "retry"
		}
		s.retry.Retry(ctx)
	case "retry":
		s.retry.Retry(ctx)
	case "resubscribe":
		s.retry.Resubscribe(ctx)
	case "publish":
		m := &mqtt.Message{Topic: op.Topic, QoS: mqtt.QoS(op.QoS), Retain: op.Retain, Payload: s.payload(op), ID: op.PresetID, Dup: op.DupIn}
		err = cli.Publish(ctx, m)
		if base != nil {
			// the retrying client keeps the message and fills it in later, on its
			// own goroutine: only a BaseClient caller may look at it again
			extra = fmt.Sprintf("id=%d", m.ID)
		}
	case "subscribe":
		subs := make([]mqtt.Subscription, len(op.Subs))
		for j, sr := range op.Subs {
			subs[j] = mqtt.Subscription{Topic: sr.Filter, QoS: mqtt.QoS(sr.QoS)}
		}
		var got []mqtt.Subscription
		got, err = cli.Subscribe(ctx, subs...)
		if got != nil {
			var sb strings.Builder
			for _, g := range got {
				fmt.Fprintf(&sb, "%s=%d;", g.Topic, int(g.QoS))
			}
			extra = sb.String()
		}
	case "unsubscribe":
		err = cli.Unsubscribe(ctx, op.Topics...)
	case "ping":
		err = cli.Ping(ctx)
	case "disconnect":
		s.mu.Lock()
		already := s.disconnectCalled
		s.disconnectCalled = true
		s.mu.Unlock()
		if already && cfg.Client != "base" {
			extra = "skipped-second-disconnect"
			break
		}
		if cfg.Client != "base" && s.retry.Client() == nil {
			// RetryClient.Disconnect before SetClient closes a nil channel
			// (documented misuse, not a property): do not call it.
			s.mu.Lock()
			s.disconnectCalled = false
			s.mu.Unlock()
			extra = "skipped-before-setclient"
			break
		}
		s.log(Rec{Kind: "cause", S: "disconnect", Op: i + 1})
		if op.Token == "base" && cfg.Client != "base" {
			// the application disconnects through the BaseClient it got from
			// Client(), below the retrying / reconnecting wrapper
			err = s.retry.Client().Disconnect(ctx)
			break
		}
		err = cli.Disconnect(ctx)
	case "handle":
		cli.Handle(s.handler(op.Handler))
	case "retryhandle":
		t := s.opState[op.Target]
		t.mu.Lock()
		terr := t.err
		t.mu.Unlock()
		rh, ok := terr.(mqtt.ErrorWithRetry)
		if !ok {
			extra = "nohandle"
			break
		}
		b := s.baseFor(op.Cli)
		err = rh.Retry(ctx, b)
	case "donewatch":
		// an application goroutine that waits for the end of the connection and
		// looks at Err() the moment Done() is closed
		b := s.baseFor(op.Cli)
		for it := 0; it < op.Repeat; it++ {
			ch := b.Done()
			if ch == nil {
				runtimeGosched()
				continue
			}
			select {
			case <-ch:
				if e := b.Err(); e == nil {
					s.log(Rec{Kind: "doneerrnil", Conn: op.Cli + 1})
				}
				it = op.Repeat
			default:
				runtimeGosched()
			}
		}
	case "probe":
		// read-only API surface, from any goroutine at any time
		for it := 0; it < op.Repeat; it++ {
			if s.retry != nil {
				_ = s.retry.Stats()
				if b := s.retry.Client(); b != nil {
					_ = b.Err()
					_ = b.Stats()
				}
			}
			runtimeGosched()
		}
		switch cfg.Client {
		case "base":
			b := s.baseFor(op.Cli)
			_ = b.Err()
			_ = b.Done()
			_ = b.Stats()
		default:
			if b := s.retry.Client(); b != nil {
				_ = b.Err()
				_ = b.Done()
				_ = b.Stats()
			}
			st := s.retry.Stats()
			extra = fmt.Sprintf("tasks=%d retries=%d", st.QueuedTasks, st.QueuedRetries)
		}
	case "muxserve":
		s.muxServe(i, op)
	case "stats":
		if s.retry != nil {
			stt := s.retry.Stats()
			extra = fmt.Sprintf("%+v", stt)
		}
	default:
		extra = "unknown-op"
	}
	r := Rec{Kind: "ret", Op: i + 1, S: extra}
	if err != nil {
		r.Err = err.Error()
		r.Cls = classify(err)
		if ctx.Err() != nil && errors.Is(err, ctx.Err()) {
			r.B = true // error is the call context's error
		}
	}
	if ctx.Err() != nil {
		r.V = 1 // context was done when the call returned
	}
	st.mu.Lock()
	st.returned = true
	st.err = err
	st.mu.Unlock()
	s.log(r)
}

// handler builds logging handler number h (0 = nil).
func (s *Sim) handler(h int) mqtt.Handler {
	if h == 0 {
		return nil
	}
	if len(s.sc.Cfg.Mux) > 0 {
		return s.muxHandler(h)
	}
	slow := s.sc.Cfg.SlowHandlerUs
	return mqtt.HandlerFunc(func(m *mqtt.Message) {
		s.log(Rec{Kind: "hin", V: int64(h), P: msgPkt(m)})
		if h == 3 && s.sc.Cfg.Client == "base" && !s.race {
			// calls back into the client that is serving it
			s.mu.Lock()
			var b *mqtt.BaseClient
			if len(s.bases) > 0 {
				b = s.bases[0]
			}
			s.reN++
			n := s.reN
			s.mu.Unlock()
			if b != nil {
				_ = b.Publish(context.Background(), &mqtt.Message{Topic: "re", QoS: 0, Payload: []byte(fmt.Sprintf("re%d", n))})
			}
		}
		if slow > 0 && !s.race {
			time.Sleep(time.Duration(slow) * time.Microsecond)
		}
		if h == 7 {
			// keeps its message and goes on reading it on a goroutine of its own
			go func() {
				n := 0
				for i := 0; i < 4; i++ {
					for _, b := range m.Payload {
						n += int(b)
					}
					n += len(m.Topic)
					runtimeGosched()
				}
				_ = n
			}()
		}
		if h == 5 && s.retry != nil && !s.race {
			// replaces itself from inside the callback
			s.log(Rec{Kind: "reg", V: 6, S: "begin"})
			s.retry.Handle(s.handler(6))
			s.log(Rec{Kind: "reg", V: 6, S: "end"})
		}
		if h == 4 {
			// the handler owns its message: it clears the identifier and rewrites
			// the rest (as a handler does that publishes the message on), then
			// reports what it had received
			got := msgPkt(m)
			m.ID = 0
			m.Topic = "scribbled/" + m.Topic
			m.QoS = mqtt.QoS0
			m.Retain, m.Dup = !m.Retain, !m.Dup
			for i := range m.Payload {
				m.Payload[i] = '#'
			}
			s.log(Rec{Kind: "hout", V: int64(h), P: got})
			return
		}
		s.log(Rec{Kind: "hout", V: int64(h), P: msgPkt(m)})
	})
}

func msgPkt(m *mqtt.Message) *Pkt {
	return &Pkt{Type: TPublish, Topic: m.Topic, Pay: shortPay(m.Payload), QoS: byte(m.QoS), Retain: m.Retain, Dup: m.Dup, ID: m.ID}
}

// sampleAll records Err()/Done() of every BaseClient whenever they change.
func (s *Sim) sampleAll() {
	if s.race {
		return
	}
	s.mu.Lock()
	bases := append([]*mqtt.BaseClient{}, s.bases...)
	s.mu.Unlock()
	for k, b := range bases {
		if b == nil {
			continue
		}
		e := b.Err()
		done := false
		if ch := b.Done(); ch != nil {
			select {
			case <-ch:
				done = true
			default:
			}
		}
		es := ""
		if e != nil {
			es = e.Error()
		}
		key := fmt.Sprintf("%v|%s", done, es)
		if s.lastSamp[k] != key {
			s.lastSamp[k] = key
			r := Rec{Kind: "sample", Conn: k + 1, B: done, Err: es}
			if e != nil {
				r.Cls = classify(e)
			}
			s.log(r)
		}
	}
}

// judgeSnapshot records the state the liveness oracles look at.
func (s *Sim) judgeSnapshot() {
	cfg := &s.sc.Cfg
	if s.race && s.sc.Prop == "C16" {
		// what Err() and Done() say in the end, per client
		s.mu.Lock()
		bases := append([]*mqtt.BaseClient{}, s.bases...)
		s.mu.Unlock()
		for k, b := range bases {
			if b == nil {
				continue
			}
			r := Rec{Kind: "finalerr", Conn: k + 1}
			if e := b.Err(); e != nil {
				r.Err, r.Cls = e.Error(), classify(e)
			}
			if ch := b.Done(); ch != nil {
				select {
				case <-ch:
					r.B = true
				default:
				}
			}
			s.log(r)
		}
	}
	s.log(Rec{Kind: "subtable", S: s.broker.subTable(cfg.ClientID)})
	if s.retry != nil {
		st := s.retry.Stats()
		s.log(Rec{Kind: "stats", V: int64(st.QueuedTasks), N: st.QueuedRetries, S: fmt.Sprintf("%+v", st)})
	}
	for i, st := range s.opState {
		st.mu.Lock()
		started, returned := st.started, st.returned
		st.mu.Unlock()
		if started && !returned {
			s.log(Rec{Kind: "pending", Op: i + 1, S: s.sc.Ops[i].Kind})
		}
	}
	s.mu.Lock()
	conns := append([]*Conn{}, s.conns...)
	s.mu.Unlock()
	for _, c := range conns {
		if c == nil {
			continue
		}
		c.mu.Lock()
		r := Rec{Kind: "connstat", Conn: c.k, B: c.peerClosed == 0 && !c.localClosed, V: int64(c.readers), N: c.maxReadReq,
			S: fmt.Sprintf("peer=%d local=%v closecalls=%d wbuf=%d writedead=%v", c.peerClosed, c.localClosed, c.closeCalls, len(c.wbuf), c.writeDead)}
		c.mu.Unlock()
		s.log(r)
	}
}

func (s *Sim) teardown() {
	s.faultsOff.Store(true)
	s.log(Rec{Kind: "teardown"})
	cfg := &s.sc.Cfg
	s.mu.Lock()
	already := s.disconnectCalled
	s.disconnectCalled = true
	s.mu.Unlock()
	if !already && s.retry != nil && s.retry.Client() != nil {
		done := make(chan struct{})
		go func() {
			defer close(done)
			ctx, cancel := context.WithTimeout(context.Background(), time.Second)
			defer cancel()
			var err error
			if cfg.Client == "reconnect" {
				err = s.reconn.Disconnect(ctx)
			} else {
				err = s.retry.Disconnect(ctx)
			}
			_ = err
		}()
		// let it run; the fake clock advances if it has to time out
		tm := time.NewTimer(2 * time.Second)
		select {
		case <-done:
			tm.Stop()
		case <-tm.C:
		}
	}
	for _, st := range s.opState {
		st.mu.Lock()
		c := st.cancel
		st.preCancel = true
		st.mu.Unlock()
		if c != nil {
			c()
		}
	}
	s.mu.Lock()
	conns := append([]*Conn{}, s.conns...)
	dials := s.dials
	s.mu.Unlock()
	for _, c := range conns {
		if c != nil {
			c.Close()
		}
	}
	_ = dials
	for _, a := range s.actors {
		close(a.ch)
	}
	s.kaTeardown()
}

// census counts goroutines of this bubble that still have library frames.
func (s *Sim) census() {
	if s.sc.Cfg.Client != "base" {
		return
	}
	buf := make([]byte, 1<<18)
	n := runtime.Stack(buf, true)
	blocks := strings.Split(string(buf[:n]), "\n\n")
	bubble := ""
	if len(blocks) > 0 {
		if i := strings.Index(blocks[0], "synctest bubble "); i >= 0 {
			rest := blocks[0][i:]
			if j := strings.IndexAny(rest, "]:,\n"); j > 0 {
				bubble = rest[:j]
			}
		}
	}
	var leaked []string
	for _, b := range blocks[1:] {
		hdr := b
		if i := strings.IndexByte(b, '\n'); i >= 0 {
			hdr = b[:i]
		}
		if bubble == "" || !strings.Contains(hdr, bubble+"]") && !strings.Contains(hdr, bubble+",") {
			continue
		}
		if !strings.Contains(b, "github.com/at-wat/mqtt-go.") {
			continue
		}
		// first library frame
		fn := ""
		for _, ln := range strings.Split(b, "\n")[1:] {
			if strings.HasPrefix(ln, "github.com/at-wat/mqtt-go.") {
				fn = ln
				if i := strings.LastIndexByte(fn, '('); i > 0 {
					fn = fn[:i]
				}
				break
			}
		}
		leaked = append(leaked, fn)
	}
	sort.Strings(leaked)
	s.log(Rec{Kind: "census", V: int64(len(leaked)), S: strings.Join(leaked, ","), B: bubble != ""})
}
