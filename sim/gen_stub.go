package sim

