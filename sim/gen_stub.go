package sim

func genRetryManual(r *Rng, prop string) *Scenario { return genReconn(r, prop) }
func genBase(r *Rng, prop string) *Scenario        { return genReconn(r, prop) }
func genKeepAlive(r *Rng, prop string) *Scenario   { return genReconn(r, prop) }
func genIDCycle(r *Rng, prop string) *Scenario     { return genReconn(r, prop) }
