package sim

func genRetryManual(r *Rng, prop string) *Scenario { return genReconn(r, prop) }
func genC20(r *Rng) *Scenario                      { return genC04(r) }
