package sim
