package sim

func genRetryManual(r *Rng, prop string) *Scenario { return genReconn(r, prop) }
