package sim

import (
	"fmt"
	"strings"
)

// ---------------------------------------------------------------- C04

type c04Item struct {
	kind     string // hin | hout | ack
	toks     map[string]*Pkt
	ackType  int
	id       uint16
	rule     string
	optional bool
}

func checkC04(ix *index, add addFn) {
	sc := ix.sc
	// handler registrations in trace order; the handler that counts for a
	// message is the one registered when it is handed over. The generator
	// keeps registrations away from arrivals; with a slow handler a message can
	// still wait across a replacement, which is why `which` looks at the
	// hand-over and presence is only switched in runs without a slow handler.
	type reg struct{ ret, h int }
	var regs []reg
	for i, op := range sc.Ops {
		if op.Kind == "handle" && ix.ops[i].inv >= 0 && ix.ops[i].ret >= 0 {
			regs = append(regs, reg{ix.ops[i].ret, op.Handler})
		}
	}
	cur := func(at int) int {
		h, best := 0, -1
		for _, g := range regs {
			if g.ret < at && g.ret > best {
				h, best = g.h, g.ret
			}
		}
		return h
	}
	// expected sequence from the arrival sequence
	var E []c04Item
	stored := map[uint16]map[string]*Pkt{}
	for _, i := range ix.rx {
		if i >= ix.end() {
			break
		}
		r := &ix.tr[i]
		if r.Conn != 1 || r.P == nil {
			continue
		}
		p := r.P
		hasHandler := cur(i) != 0
		switch p.Type {
		case TPublish:
			one := map[string]*Pkt{p.Pay: p}
			switch p.QoS {
			case 0:
				if hasHandler {
					E = append(E, c04Item{kind: "hin", toks: one, rule: "q0q1-once-in-order"}, c04Item{kind: "hout", toks: one, rule: "q0q1-once-in-order"})
				}
			case 1:
				if hasHandler {
					E = append(E, c04Item{kind: "hin", toks: one, rule: "q0q1-once-in-order"}, c04Item{kind: "hout", toks: one, rule: "q0q1-once-in-order"})
				}
				E = append(E, c04Item{kind: "ack", ackType: TPubAck, id: p.ID, rule: "puback"})
			case 2:
				E = append(E, c04Item{kind: "ack", ackType: TPubRec, id: p.ID, rule: "q2"})
				if stored[p.ID] == nil {
					stored[p.ID] = map[string]*Pkt{}
				}
				stored[p.ID][p.Pay] = p
			}
		case TPubRel:
			if m, ok := stored[p.ID]; ok {
				if hasHandler {
					E = append(E, c04Item{kind: "hin", toks: m, rule: "q2"}, c04Item{kind: "hout", toks: m, rule: "q2"})
				}
				E = append(E, c04Item{kind: "ack", ackType: TPubComp, id: p.ID, rule: "q2"})
				delete(stored, p.ID)
			} else {
				// nothing is demanded for an unknown identifier; a PUBCOMP is tolerated
				E = append(E, c04Item{kind: "ack", ackType: TPubComp, id: p.ID, rule: "q2", optional: true})
			}
		}
	}
	// which: every hand-over goes to the handler registered at that moment
	for j := range ix.tr {
		if j >= ix.end() {
			break
		}
		q := &ix.tr[j]
		if q.Kind != "hin" {
			continue
		}
		same := false
		for _, g := range regs {
			if ix.tr[g.ret].T == q.T {
				same = true
			}
		}
		if want := cur(j); !same && int(q.V) != want {
			add("which", fmt.Sprintf("message %q was handed to handler %d, the registered one is %d", q.P.Pay, q.V, want), nil)
			break
		}
	}
	// actual sequence
	ei := 0
	failed := false // a write of an acknowledgement failed: the link ends there
	next := func() *c04Item {
		for ei < len(E) {
			return &E[ei]
		}
		return nil
	}
	describe := func(r *Rec) string {
		if r.P != nil {
			return r.Kind + " " + r.P.String()
		}
		return r.Kind
	}
	for i := range ix.tr {
		if i >= ix.end() {
			break
		}
		r := &ix.tr[i]
		var isAck bool
		switch r.Kind {
		case "hin", "hout":
		case "tx", "txfail":
			if r.Conn != 1 || (r.P.Type != TPubAck && r.P.Type != TPubRec && r.P.Type != TPubComp) {
				continue
			}
			isAck = true
		default:
			continue
		}
		if failed {
			add("after-failure", fmt.Sprintf("%s after an acknowledgement could not be written", describe(r)), nil)
			return
		}
		for {
			e := next()
			if e == nil {
				rule := "q0q1-once-in-order"
				if r.P != nil && (r.P.QoS == 2 || r.P.Type == TPubRec || r.P.Type == TPubComp) {
					rule = "q2"
				} else if isAck {
					rule = "puback"
				}
				add(rule, fmt.Sprintf("unexpected %s: nothing more was owed", describe(r)), nil)
				return
			}
			ok := false
			if isAck {
				ok = e.kind == "ack" && e.ackType == r.P.Type && e.id == r.P.ID
			} else if e.kind == r.Kind {
				if want, found := e.toks[r.P.Pay]; found {
					ok = want.Topic == r.P.Topic && want.QoS == r.P.QoS && want.ID == r.P.ID && want.Retain == r.P.Retain && want.Dup == r.P.Dup
				}
			}
			if ok {
				ei++
				break
			}
			if e.optional {
				ei++
				continue
			}
			want := e.kind
			if e.kind == "ack" {
				want = fmt.Sprintf("%s(id=%d)", typeNames[e.ackType], e.id)
			} else {
				var ts []string
				for t := range e.toks {
					ts = append(ts, t)
				}
				want = e.kind + " of " + strings.Join(ts, "|")
			}
			add(e.rule, fmt.Sprintf("expected %s, got %s", want, describe(r)), nil)
			return
		}
		if r.Kind == "txfail" {
			failed = true
		}
	}
	// everything owed must have happened unless the link ended
	for ei < len(E) && E[ei].optional {
		ei++
	}
	if ei < len(E) && ix.complete && !failed {
		ended := false
		for i := range ix.tr {
			if i >= ix.end() {
				break
			}
			// only the network ends the link here: the client closing it on
			// its own (e.g. because it rejected a well-formed packet) does
			// not excuse what is still owed
			if ix.tr[i].Kind == "cut" && ix.tr[i].Conn == 1 {
				ended = true
			}
			if ix.tr[i].Kind == "write" && ix.tr[i].Err != "" {
				ended = true
			}
		}
		if !ended {
			e := E[ei]
			add(e.rule, fmt.Sprintf("owed %s item (%d of %d) never happened on a healthy connection", e.kind, ei, len(E)), nil)
		}
	}
}

// ---------------------------------------------------------------- C06

var c06Malformed = map[string]bool{
	"trunc": true, "len-overlong": true, "len-nonterminating": true, "len-beyond-data": true,
	"illegal-flags": true, "qos3": true, "unknown-type": true, "short-body": true,
	"topic-beyond-body": true, "no-room-for-id": true, "nul-in-topic": true, "len-max-then-eof": true,
}

const maxPacket = 268435455 + 5

func checkC06(ix *index, add addFn) {
	// alloc: no read request beyond the protocol maximum
	for i := range ix.tr {
		r := &ix.tr[i]
		if r.Kind == "connstat" && r.N > maxPacket {
			add("alloc", fmt.Sprintf("conn %d: a single read request of %d bytes (protocol maximum %d)", r.Conn, r.N, maxPacket), map[string]string{"kind": "read-request"})
		}
	}
	badAt := -1
	class := ""
	for _, i := range ix.rx {
		r := &ix.tr[i]
		if r.S != "" && r.S != "wellformed" && r.S != "wellformed-q2" && r.S != "forged" {
			badAt, class = i, r.S
			break
		}
	}
	if badAt < 0 {
		return
	}
	// prefix-ok: well-formed packets before the bad one had their effect
	handlerSet := false
	for k, op := range ix.sc.Ops {
		if op.Kind == "handle" && op.Handler != 0 && ix.ops[k].inv >= 0 {
			handlerSet = true
		}
	}
	for _, i := range ix.rx {
		if i >= badAt {
			break
		}
		r := &ix.tr[i]
		if r.P == nil {
			continue
		}
		switch {
		case r.P.Type == TPublish && r.S == "wellformed" && handlerSet:
			found := false
			for j := i; j < len(ix.tr); j++ {
				if ix.tr[j].Kind == "hin" && ix.tr[j].P.Pay == r.P.Pay {
					found = true
					break
				}
			}
			if !found {
				add("prefix-ok", fmt.Sprintf("well-formed PUBLISH %q delivered before the malformed packet was never handed over", r.P.Pay), nil)
			}
		case r.P.Type == TPublish && r.S == "wellformed-q2" && handlerSet:
			// released before the bad packet arrived: handed over, as it was sent
			relAt := -1
			for _, j := range ix.rx {
				if q := &ix.tr[j]; j > i && j < badAt && q.P != nil && q.P.Type == TPubRel && q.P.ID == r.P.ID {
					relAt = j
					break
				}
			}
			if relAt < 0 {
				break
			}
			found := false
			for j := relAt; j < len(ix.tr); j++ {
				if ix.tr[j].Kind == "hin" && ix.tr[j].P.Pay == r.P.Pay && ix.tr[j].P.Topic == r.P.Topic {
					found = true
					break
				}
			}
			if !found {
				add("prefix-ok", fmt.Sprintf("well-formed QoS 2 PUBLISH %q, released before the malformed packet, was never handed over as sent", r.P.Pay), map[string]string{"kind": "q2"})
			}
		case r.P.Type == TPubAck:
			for k, op := range ix.sc.Ops {
				if op.Kind == "publish" && ix.ops[k].ret >= 0 && ix.ops[k].extra == fmt.Sprintf("id=%d", r.P.ID) {
					if ix.ops[k].err != "" {
						add("prefix-ok", fmt.Sprintf("publish op %d: its PUBACK preceded the malformed packet but the call failed: %s", k, ix.ops[k].err), nil)
					}
				}
			}
		}
	}
	// nothing is made up: whatever the handler is given after the bad packet
	// arrived is one of the well-formed messages (a packet cut short is not
	// handed over as if it were complete)
	{
		sent := map[string]bool{}
		for _, o := range ix.sc.Script {
			if o.Kind == "pkt" && o.Pkt != nil && o.Pkt.Type == TPublish {
				sent[o.Pkt.Pay] = true
			}
		}
		for j := badAt; j < len(ix.tr) && j < ix.end(); j++ {
			if q := &ix.tr[j]; q.Kind == "hin" && q.P != nil && !sent[q.P.Pay] && c06Malformed[class] {
				add("prefix-ok", fmt.Sprintf("after the malformed packet (%s) the handler was given a message nobody sent completely: topic %q, %d payload bytes", class, q.P.Topic, len(q.P.Pay)), map[string]string{"kind": "made-up"})
				break
			}
		}
	}
	if !c06Malformed[class] || !ix.complete {
		return
	}
	// ends-link
	var lastSample, closedState *Rec
	for i := range ix.tr {
		if i >= ix.end() {
			break
		}
		r := &ix.tr[i]
		if r.Conn != 1 {
			continue
		}
		if r.Kind == "sample" {
			lastSample = r
		}
		if r.Kind == "state" && r.S == "Closed" {
			closedState = r
		}
	}
	feat := map[string]string{"class": class}
	if lastSample == nil || !lastSample.B {
		add("ends-link", fmt.Sprintf("malformed input (%s) did not end the connection: Done() not closed", class), feat)
		return
	}
	if lastSample.Err == "" {
		add("ends-link", fmt.Sprintf("malformed input (%s): Err() is nil after the connection ended", class), feat)
	}
	if closedState == nil || closedState.Err == "" {
		add("ends-link", fmt.Sprintf("malformed input (%s): state callback did not report Closed with an error", class), feat)
	}
}

// ---------------------------------------------------------------- C07

// checkC07Race: engine R pass. Several callers make their requests at the
// same moment under real parallelism; a request whose own acknowledgement was
// delivered on a connection that stayed up must have returned by the end of
// the run (whatever the callers' arrival order was when the client set up its
// bookkeeping for that kind of request).
func checkC07Race(ix *index, add addFn) {
	sc := ix.sc
	for i := range ix.tr {
		if k := ix.tr[i].Kind; k == "cut" || k == "rxlost" || k == "lostb2c" || k == "txbad" {
			return // endings race with the answers: nothing is demanded
		}
	}
	for _, op := range sc.Ops {
		if op.Kind == "cancel" && op.Target >= 0 && op.Target < len(sc.Ops) && sc.Ops[op.Target].Kind == "ping" && sc.Ops[op.Target].Token == "precancel" {
			continue // a Ping given up at once: its PINGREQ is still answered
		}
		if op.Kind == "close" || op.Kind == "disconnect" || op.Kind == "cancel" {
			return
		}
	}
	pending := map[int]bool{}
	for i := range ix.tr {
		if r := &ix.tr[i]; r.Kind == "pending" {
			pending[r.Op-1] = true
		}
	}
	if len(pending) == 0 {
		return
	}
	// per kind: were all requests of that kind on the wire answered?
	type cnt struct{ tx, ack int }
	byKind := map[string]*cnt{"subscribe": {}, "unsubscribe": {}, "ping": {}}
	for _, i := range ix.tx {
		r := &ix.tr[i]
		var k string
		var at int
		switch r.P.Type {
		case TSubscribe:
			k, at = "subscribe", TSubAck
		case TUnsubscribe:
			k, at = "unsubscribe", TUnsubAck
		case TPingReq:
			byKind["ping"].tx++
			continue
		default:
			continue
		}
		byKind[k].tx++
		if ix.rxAfter(r.Conn, at, r.P.ID, i) >= 0 {
			byKind[k].ack++
		}
	}
	for _, i := range ix.rx {
		if r := &ix.tr[i]; r.P != nil && r.P.Type == TPingResp {
			byKind["ping"].ack++
		}
	}
	for k := range pending {
		op := &sc.Ops[k]
		switch op.Kind {
		case "publish":
			if op.QoS == 0 {
				continue
			}
			for _, i := range ix.tx {
				r := &ix.tr[i]
				if r.P.Type != TPublish || tokenOf(r.P.Pay) != op.Token {
					continue
				}
				fin := TPubAck
				if op.QoS == 2 {
					fin = TPubComp
				}
				if ix.rxAfter(r.Conn, fin, r.P.ID, i) >= 0 {
					add("completes", fmt.Sprintf("op %d publish q%d %s (id %d): its final acknowledgement was delivered on a connection that stayed up, and the call never returned", k, op.QoS, op.Token, r.P.ID), map[string]string{"kind": "publish", "engine": "R"})
				}
				break
			}
		case "subscribe", "unsubscribe", "ping":
			c := byKind[op.Kind]
			if op.Kind == "ping" && op.Token == "precancel" {
				continue
			}
			if c.tx > 0 && c.ack >= c.tx {
				add("completes", fmt.Sprintf("op %d %s: every %s request on the wire was answered on a connection that stayed up, and the call never returned", k, op.Kind, op.Kind), map[string]string{"kind": op.Kind, "engine": "R"})
			}
		}
	}
}

func checkC07(ix *index, add addFn) {
	sc := ix.sc
	if sc.Family == "race" {
		checkC07Race(ix, add)
		return
	}
	connEnded := -1
	for i := range ix.tr {
		if i >= ix.end() {
			break
		}
		if (ix.tr[i].Kind == "cut" || ix.tr[i].Kind == "close") && ix.tr[i].Conn == 1 {
			connEnded = i
			break
		}
	}
	for k, op := range sc.Ops {
		o := ix.ops[k]
		if o.inv < 0 {
			continue
		}
		var reqType int
		var acks []int
		switch {
		case op.Kind == "publish" && op.QoS == 1:
			reqType, acks = TPublish, []int{TPubAck}
		case op.Kind == "publish" && op.QoS == 2:
			reqType, acks = TPublish, []int{TPubRec, TPubComp}
		case op.Kind == "subscribe":
			reqType, acks = TSubscribe, []int{TSubAck}
		case op.Kind == "unsubscribe":
			reqType, acks = TUnsubscribe, []int{TUnsubAck}
		default:
			continue
		}
		// the request packet: first tx of that type after inv in the same step
		txAt := -1
		var id uint16
		for _, j := range ix.tx {
			if j < o.inv {
				continue
			}
			r := &ix.tr[j]
			if r.T != ix.tr[o.inv].T {
				break
			}
			if r.P.Type == reqType && (reqType != TPublish || tokenOf(r.P.Pay) == op.Token) &&
				(reqType != TSubscribe || subsKey(r.P.Subs) == subsKey(op.Subs)) &&
				(reqType != TUnsubscribe || strings.Join(r.P.Topics, ",") == strings.Join(op.Topics, ",")) {
				txAt, id = j, r.P.ID
				break
			}
		}
		if txAt < 0 {
			continue
		}
		// own acknowledgements delivered, in order
		at := txAt
		var got []int
		var subCodes []byte
		for ai, t := range acks {
			if ai == 1 {
				// PUBCOMP counts only after the PUBREL was written
				rel := -1
				for _, j := range ix.tx {
					if j > at && ix.tr[j].P.Type == TPubRel && ix.tr[j].P.ID == id {
						rel = j
						break
					}
				}
				if rel < 0 {
					// its own PUBREC was delivered while the call was waiting and the
					// connection was up: the exchange must go on with PUBREL
					rec := got[0]
					waiting := o.ret < 0 || o.ret > rec
					up := connEnded < 0 || connEnded > rec
					if waiting && up && ix.complete {
						add("late", fmt.Sprintf("op %d (publish q2 id %d): its PUBREC was delivered at t=%dns but no PUBREL followed", k, id, ix.tr[rec].T), map[string]string{"stage": "pubrec"})
					}
					break
				}
				at = rel
			}
			j := ix.rxAfter(1, t, id, at)
			if j < 0 {
				break
			}
			if t == TSubAck {
				subCodes = ix.tr[j].P.Codes
			}
			got = append(got, j)
			at = j
		}
		complete := len(got) == len(acks)
		okRet := o.ret >= 0 && o.err == "" && o.ret < ix.end()
		if okRet && (!complete || got[len(got)-1] > o.ret) {
			add("early", fmt.Sprintf("op %d (%s id %d) returned success before its own acknowledgement(s) arrived", k, op.Kind, id), nil)
			continue
		}
		if complete {
			last := got[len(got)-1]
			if connEnded >= 0 && connEnded < last {
				continue
			}
			if op.Kind == "subscribe" && len(subCodes) != len(op.Subs) {
				// count differs: must fail with ErrInvalidSubAck
				if o.ret < 0 || !hasCls(o.cls, "invsuback") {
					if o.ret >= 0 && o.ret < last {
						continue // had already failed for another reason
					}
					add("suback", fmt.Sprintf("op %d: SUBACK with %d codes for %d filters did not fail with ErrInvalidSubAck (err=%q)", k, len(subCodes), len(op.Subs), o.err), nil)
				}
				continue
			}
			slack := int64(0)
			if sc.Cfg.EarlyReply {
				slack = 10 // the writer is parked for 1 ns inside each Write of this mode
			}
			if o.ret < 0 || ix.tr[o.ret].T > ix.tr[last].T+slack {
				if o.ret >= 0 && o.ret < last {
					continue
				}
				add("late", fmt.Sprintf("op %d (%s id %d): all its acknowledgements were delivered but the call had not returned at that quiescence", k, op.Kind, id), nil)
				continue
			}
			if op.Kind == "subscribe" && o.err == "" {
				var sb strings.Builder
				for j, sr := range op.Subs {
					fmt.Fprintf(&sb, "%s=%d;", sr.Filter, int(subCodes[j]))
				}
				if o.extra != sb.String() {
					add("suback", fmt.Sprintf("op %d: Subscribe returned %q, SUBACK granted %q", k, o.extra, sb.String()), nil)
				}
			}
			continue
		}
		// not (yet) completely acknowledged: must still be blocked unless the link ended
		if o.ret >= 0 && o.ret < ix.end() && o.err != "" && !o.ctxErr && (connEnded < 0 || o.ret < connEnded) {
			add("disturbed", fmt.Sprintf("op %d (%s id %d) failed (%s) although the connection was up and its acknowledgement had not arrived", k, op.Kind, id, o.err), nil)
		}
	}
}

// ---------------------------------------------------------------- C11 + C19

type c11cause struct {
	idx   int    // trace index
	t     int64  // fake time
	kind  string // cancel | deadline | localclose | peereof | peerreset | malformed | refused
	op    int    // target op (ctx causes), -1 otherwise
	conn  int    // connection (connection causes)
	class string
}

func (ix *index) causes() []c11cause {
	var cs []c11cause
	sc := ix.sc
	for i := range ix.tr {
		if i >= ix.end() {
			break
		}
		r := &ix.tr[i]
		switch r.Kind {
		case "cause":
			switch r.S {
			case "cancel":
				cs = append(cs, c11cause{idx: i, t: r.T, kind: "cancel", op: r.Op - 1})
			case "localclose":
				cs = append(cs, c11cause{idx: i, t: r.T, kind: "localclose", op: -1, conn: r.Conn})
			case "disconnect":
				if sc.Cfg.Client == "base" && r.Op >= 1 {
					cs = append(cs, c11cause{idx: i, t: r.T, kind: "disconnect", op: -1, conn: sc.Ops[r.Op-1].Cli + 1})
				}
			}
		case "cut":
			k := "peereof"
			if r.S == "reset" {
				k = "peerreset"
			}
			cs = append(cs, c11cause{idx: i, t: r.T, kind: k, op: -1, conn: r.Conn})
		case "rx":
			if r.S == "malformed" {
				cs = append(cs, c11cause{idx: i, t: r.T, kind: "malformed", op: -1, conn: r.Conn})
			}
			if r.P != nil && r.P.Type == TConnAck && r.P.Code != 0 {
				cs = append(cs, c11cause{idx: i, t: r.T, kind: "refused", op: -1, conn: r.Conn})
			}
		case "inv":
			k := r.Op - 1
			if k >= 0 && k < len(sc.Ops) && sc.Ops[k].CtxTimeoutUs > 0 {
				cs = append(cs, c11cause{idx: i, t: r.T + sc.Ops[k].CtxTimeoutUs*1000, kind: "deadline", op: k})
			}
		}
	}
	return cs
}

func blockingKind(op *Op) bool {
	switch op.Kind {
	case "connect", "publish", "subscribe", "unsubscribe", "ping", "disconnect", "retryhandle":
		return true
	}
	return false
}

func checkC11(ix *index, add addFn) {
	sc := ix.sc
	if sc.Cfg.Client != "base" {
		checkC11Reconn(ix, add)
		return
	}
	cs := ix.causes()
	firstEnd := map[int]*c11cause{} // per connection
	for i := range cs {
		c := &cs[i]
		if c.op < 0 && c.kind != "refused" || c.kind == "refused" {
			if firstEnd[c.conn] == nil || c.t < firstEnd[c.conn].t {
				firstEnd[c.conn] = c
			}
		}
	}
	for k := range sc.Ops {
		op := &sc.Ops[k]
		o := ix.ops[k]
		if !blockingKind(op) || o.inv < 0 {
			continue
		}
		invT := ix.tr[o.inv].T
		conn := op.Cli + 1
		// earliest cause that obliges this call to return
		due := int64(-1)
		why := ""
		ctxCause := false
		if o.pre {
			due, why, ctxCause = invT, "context already cancelled", true
		}
		for i := range cs {
			c := &cs[i]
			if c.op == k {
				t := c.t
				if t < invT {
					t = invT
				}
				if due < 0 || t < due {
					due, why, ctxCause = t, c.kind, true
				}
			}
		}
		if e := firstEnd[conn]; e != nil {
			t := e.t
			if t < invT {
				t = invT
			}
			if due < 0 || t < due {
				due, why, ctxCause = t, e.kind, false
			}
		}
		if due < 0 {
			continue
		}
		if o.ret >= 0 && ix.tr[o.ret].T < due {
			continue // completed before any cause
		}
		feat := map[string]string{"call": op.Kind, "cause": why}
		if o.ret < 0 || o.ret >= ix.end() {
			if ix.judge >= 0 {
				add("returns", fmt.Sprintf("op %d (%s) had not returned when the run was judged although %s happened at t=%dns", k, op.Kind, why, due), feat)
			}
			continue
		}
		if ix.tr[o.ret].T > due && (len(sc.Cfg.Yields) == 0 || ctxCause) {
			add("returns", fmt.Sprintf("op %d (%s) returned %dns after %s", k, op.Kind, ix.tr[o.ret].T-due, why), feat)
			continue
		}
		if ctxCause && o.err != "" && !o.ctxErr && ix.tr[o.ret].T == due {
			// the context's error must be reported unless a connection cause hit at the same instant
			same := false
			if e := firstEnd[conn]; e != nil && e.t <= due {
				same = true
			}
			if !same {
				add("ctx-error", fmt.Sprintf("op %d (%s): context cause %s but returned %q", k, op.Kind, why, o.err), feat)
			}
		}
	}
	// done: closed iff the connection ended
	for i := range ix.tr {
		if i >= ix.end() {
			break
		}
		r := &ix.tr[i]
		if r.Kind != "sample" || !r.B {
			continue
		}
		e := firstEnd[r.Conn]
		if e == nil || r.T < e.t {
			add("done", fmt.Sprintf("conn %d: Done() closed at t=%dns before anything ended the connection", r.Conn, r.T), nil)
		}
	}
	for conn, e := range firstEnd {
		if e.kind == "refused" {
			continue // the broker closes after the refusal; covered by its eof
		}
		// was Connect ever called on it?
		called := false
		for k, op := range sc.Ops {
			if op.Kind == "connect" && op.Cli+1 == conn && ix.ops[k].inv >= 0 && ix.tr[ix.ops[k].inv].T <= e.t {
				called = true
			}
		}
		at := e.t
		if !called {
			// the transport died before Connect was called on it: Done() must be
			// closed at the quiescence after that Connect
			for k, op := range sc.Ops {
				if op.Kind == "connect" && op.Cli+1 == conn && ix.ops[k].inv >= 0 {
					called = true
					at = ix.tr[ix.ops[k].inv].T
				}
			}
			if !called {
				continue
			}
		}
		ok := false
		for i := range ix.tr {
			r := &ix.tr[i]
			if r.Kind == "sample" && r.Conn == conn && r.B && (r.T == at || (len(sc.Cfg.Yields) > 0 && r.T >= at && i < ix.end())) {
				ok = true // (with a parked Close() only "closed by the time of judgement")
			}
		}
		if !ok {
			add("done", fmt.Sprintf("conn %d: Done() not closed at the quiescence after %s (t=%dns)", conn, e.kind, e.t), map[string]string{"cause": e.kind})
		}
	}
	// reader-exits
	for i := ix.end(); i < len(ix.tr); i++ {
		r := &ix.tr[i]
		if r.Kind == "connstat" && !r.B && r.V > 0 {
			add("reader-exits", fmt.Sprintf("conn %d ended but %d goroutine(s) still sit in its Read", r.Conn, r.V), nil)
		}
		if r.Kind == "census" && r.B && r.V > 0 {
			add("reader-exits", fmt.Sprintf("%d library goroutine(s) left after every connection was closed and every context cancelled: %s", r.V, r.S), nil)
		}
	}
}

// checkC11Reconn: Connect/Disconnect of the reconnecting client.
func checkC11Reconn(ix *index, add addFn) {
	sc := ix.sc
	cs := ix.causes()
	// Disconnect of the reconnecting client returns (C09's rule, read as a
	// statement about the blocking call)
	checkC09(ix, func(rule, detail string, feat map[string]string) {
		if rule == "disconnect-returns" {
			add("returns", detail, map[string]string{"call": "reconnect.Disconnect", "via": "C09"})
		}
	})
	// nothing is left running after Disconnect has returned: every transport the
	// client opened has been closed by then (judged at the end of the run)
	if ix.judge >= 0 && ix.complete && ix.discAt >= 0 {
		discRet := -1
		for k := range sc.Ops {
			if sc.Ops[k].Kind == "disconnect" && ix.ops[k].inv >= 0 && ix.ops[k].inv <= ix.discAt && ix.ops[k].ret > ix.discAt && ix.ops[k].ret < ix.end() && ix.ops[k].err == "" {
				discRet = ix.ops[k].ret
			}
		}
		if discRet >= 0 {
			for k, c := range ix.connInfos() {
				if c.dialDone < 0 || c.dialErr != "" || c.endAt >= 0 {
					continue
				}
				phase := "other"
				if ix.discAt > c.dialAt && (c.connack < 0 || ix.discAt < c.connack) {
					phase = "during-establishment"
				} else {
					// the DISCONNECT task is only queued when Disconnect returns: a request
					// on this connection that is never answered keeps it from running
					for j := 0; j < ix.end(); j++ {
						if q := &ix.tr[j]; (q.Kind == "dropb2c" || q.Kind == "dropc2b") && q.Conn == k {
							phase = "behind-unanswered-request"
						}
					}
				}
				add("left-running", fmt.Sprintf("conn %d is still open when the run is judged although Disconnect returned nil at t=%dns (Disconnect was called at t=%dns, the connection was dialled at t=%dns)", k, ix.tr[discRet].T, ix.tr[ix.discAt].T, ix.tr[c.dialAt].T), map[string]string{"phase": phase})
			}
		}
	}
	// nothing is left running for a dead connection: a transport whose writes
	// fail while its read side stays silent can only be ended by the client
	if ix.judge >= 0 && ix.complete {
		for i := range ix.tr {
			if i >= ix.end() {
				break
			}
			r := &ix.tr[i]
			if r.Kind != "write" || !r.B || r.Err == "" {
				continue
			}
			half := false
			for _, f := range sc.Faults {
				if f.Kind == "writeErr" && f.Conn == r.Conn && f.Code == 2 {
					half = true
				}
			}
			if !half {
				continue
			}
			closed := false
			for j := i; j < ix.end(); j++ {
				if q := &ix.tr[j]; q.Conn == r.Conn && (q.Kind == "close" || q.Kind == "cut") {
					closed = true
					break
				}
			}
			if !closed && ix.discAt >= 0 && ix.discAt < i {
				continue // a connection left open after Disconnect: reported by left-running
			}
			if !closed {
				// which packet the failed write carried (logged right after it)
				what := "?"
				for j := i + 1; j < ix.end() && ix.tr[j].T == r.T; j++ {
					if q := &ix.tr[j]; q.Kind == "txfail" && q.Conn == r.Conn && q.P != nil {
						what = q.P.Name()
						if q.P.Type == TPublish {
							what = fmt.Sprintf("PUBLISH/q%d", q.P.QoS)
						}
						break
					}
				}
				feat := map[string]string{"pkt": what}
				if what == "PINGREQ" {
					feat["by"] = "keepalive"
					for j := i + 1; j < ix.end() && ix.tr[j].T == r.T; j++ {
						if q := &ix.tr[j]; q.Kind == "txfail" && q.Conn == r.Conn && !isKeepAlivePing(ix, j) {
							feat["by"] = "application"
						}
					}
				}
				add("dead-link", fmt.Sprintf("conn %d: the write of %s failed at t=%dns and the read side stayed silent; the client had not closed the transport when the run was judged", r.Conn, what, r.T), feat)
			}
		}
	}
	for k := range sc.Ops {
		op := &sc.Ops[k]
		o := ix.ops[k]
		if o.inv < 0 {
			continue
		}
		invT := ix.tr[o.inv].T
		switch op.Kind {
		case "connect":
			due := int64(-1)
			why := ""
			for _, c := range cs {
				if c.op == k {
					t := c.t
					if t < invT {
						t = invT
					}
					if due < 0 || t < due {
						due, why = t, c.kind
					}
				}
			}
			if due < 0 {
				continue
			}
			if o.ret >= 0 && ix.tr[o.ret].T < due {
				continue
			}
			feat := map[string]string{"call": "reconnect.Connect", "cause": why}
			if o.ret < 0 || o.ret >= ix.end() {
				if ix.judge >= 0 {
					add("returns", fmt.Sprintf("reconnecting Connect had not returned although its context ended (%s) at t=%dns", why, due), feat)
				}
				continue
			}
			if ix.tr[o.ret].T > due {
				add("returns", fmt.Sprintf("reconnecting Connect returned %dns after its context ended (%s)", ix.tr[o.ret].T-due, why), feat)
				continue
			}
			if o.err != "" && !o.ctxErr {
				add("ctx-error", fmt.Sprintf("reconnecting Connect: context cause %s but returned %q", why, o.err), feat)
			}
		case "disconnect":
			if strings.HasPrefix(o.extra, "skipped") {
				continue
			}
			feat := map[string]string{"call": "reconnect.Disconnect"}
			if op.CtxTimeoutUs > 0 {
				dl := invT + op.CtxTimeoutUs*1000
				if o.ret < 0 || o.ret >= ix.end() || ix.tr[o.ret].T > dl {
					add("returns", "reconnecting Disconnect did not return by its context's deadline", feat)
				}
			}
			if op.Token == "must-return" && (o.ret < 0 || o.ret >= ix.end()) && ix.judge >= 0 {
				add("returns", "reconnecting Disconnect (called while connected / backing off) had not returned when the run was judged", feat)
			} else if op.Token == "must-return" && op.CtxTimeoutUs == 0 && len(sc.Cfg.Yields) == 0 && o.ret >= 0 {
				// promptly: in these phases the loop is parked in a select that
				// contains the disconnect request, so nothing on the fake clock
				// (back-off remainder, a further connection attempt) may pass
				// beyond the DISCONNECT packet's own way to the broker
				if d := ix.tr[o.ret].T - invT; d > (sc.Cfg.LatC2BUs+sc.Cfg.LatB2CUs+100)*1000 {
					add("returns", fmt.Sprintf("reconnecting Disconnect (called while connected / backing off) returned only %dns later", d), feat)
				}
			}
			// without a deadline nothing is demanded here: Disconnect's context is
			// alive and whether the loop can observe the request in its current
			// phase is C09's disconnect-returns rule
		case "ping":
			if op.CtxTimeoutUs > 0 {
				dl := invT + op.CtxTimeoutUs*1000
				if o.ret < 0 || o.ret >= ix.end() || ix.tr[o.ret].T > dl {
					add("returns", "Ping through the reconnecting client did not return by its context's deadline", map[string]string{"call": "reconnect.Ping"})
				}
			}
		case "publish", "subscribe", "unsubscribe":
			// requests to the retrying client are queued and return at once; one that
			// has not returned when the run is judged is blocked for good
			if ix.judge >= 0 && (o.ret < 0 || o.ret >= ix.end()) && !strings.HasPrefix(o.extra, "skipped") {
				add("returns", fmt.Sprintf("%s through the reconnecting client had not returned when the run was judged", op.Kind), map[string]string{"call": "reconnect." + op.Kind})
			}
		}
	}
}

// checkRefusedCode: a Connect that fails because the broker refused it returns
// an error in which errors.Is finds ErrConnectionFailed and errors.As finds the
// ConnectionError with the broker's return code, through whatever wrapping the
// client that was called adds.
func checkRefusedCode(ix *index, add addFn) {
	for _, i := range ix.rx {
		if i >= ix.end() {
			break
		}
		r := &ix.tr[i]
		if r.P == nil || r.P.Type != TConnAck || r.P.Code == 0 {
			continue
		}
		for k, op := range ix.sc.Ops {
			if op.Kind != "connect" && op.Kind != "rconnect" {
				continue
			}
			o := ix.ops[k]
			if o.inv < 0 || o.inv > i || o.ret < i || o.ret >= ix.end() || ix.tr[o.ret].T != r.T || o.err == "" || o.ctxErr {
				continue
			}
			if !hasCls(o.cls, "connfailed") || !hasCls(o.cls, fmt.Sprintf("code%d", r.P.Code)) {
				add("sentinel", fmt.Sprintf("op %d (%s): CONNACK refused with code %d; the returned error %q does not give ErrConnectionFailed / ConnectionError{Code: %d} to errors.Is / errors.As", k, op.Kind, r.P.Code, o.err, r.P.Code), map[string]string{"want": "connrefused"})
			}
		}
	}
}

// C19: errors keep their cause (fault-caused half).
func checkC19(ix *index, add addFn) {
	sc := ix.sc
	if sc.Family == "keepalive" {
		// KeepAlive's error: ErrPingTimeout only if a ping really timed out, the
		// context's own error (cancelled / deadline) if the caller's context ended
		checkC13KA(ix, func(rule, detail string, feat map[string]string) {
			if rule == "ctx" || rule == "timeout" || rule == "ping-error" {
				// (ping-error: a Ping that failed for a reason of its own is not a ping timeout)
				add("no-false-sentinel", "KeepAlive: "+detail, map[string]string{"via": "C13/" + rule})
			}
		})
		return
	}
	checkRefusedCode(ix, add)
	if sc.Cfg.Client != "base" {
		checkC19Retry(ix, add)
		return
	}
	cs := ix.causes()
	firstEnd := map[int]*c11cause{}
	for i := range cs {
		c := &cs[i]
		if c.op < 0 {
			if firstEnd[c.conn] == nil || c.t < firstEnd[c.conn].t {
				firstEnd[c.conn] = c
			}
		}
	}
	sentinels := []string{"closed", "invpkt", "invlen", "invrune", "paylen", "invqos", "notconn", "canceled", "deadline", "eof", "pingtimeout", "connfailed", "invsuback", "closedclient", "reqtimeout"}
	expectOnly := func(k int, cls string, want ...string) {
		for _, s := range sentinels {
			has := hasCls(cls, s)
			wanted := false
			for _, w := range want {
				if w == s {
					wanted = true
				}
			}
			if wanted && !has {
				add("sentinel", fmt.Sprintf("op %d (%s): errors.Is does not find %s in %q", k, sc.Ops[k].Kind, s, ix.ops[k].err), map[string]string{"want": s})
			}
			if !wanted && has {
				add("no-false-sentinel", fmt.Sprintf("op %d (%s): errors.Is reports %s which was not the cause (%q)", k, sc.Ops[k].Kind, s, ix.ops[k].err), map[string]string{"got": s})
			}
		}
	}
	for k := range sc.Ops {
		op := &sc.Ops[k]
		o := ix.ops[k]
		if !blockingKind(op) || o.inv < 0 || o.ret < 0 || o.err == "" || o.ret >= ix.end() {
			continue
		}
		invT := ix.tr[o.inv].T
		retT := ix.tr[o.ret].T
		conn := op.Cli + 1
		// which single cause explains this failure? only unambiguous cases are judged
		var ctxC, connC *c11cause
		nctx := 0
		for i := range cs {
			c := &cs[i]
			if c.op == k && c.t <= retT {
				ctxC = c
				nctx++
			}
		}
		if e := firstEnd[conn]; e != nil && e.t <= retT {
			connC = e
		}
		preCancelled := o.pre
		interrupted := op.Kind == "publish" && op.QoS > 0 || op.Kind == "subscribe" || op.Kind == "unsubscribe" || op.Kind == "retryhandle"
		switch {
		case (ctxC != nil || preCancelled) && connC == nil:
			// context cause alone
			kind := "canceled"
			if ctxC != nil && ctxC.kind == "deadline" {
				kind = "deadline"
			}
			if hasCls(o.cls, "notconn") {
				continue // call before Connect: ErrNotConnected wins, fine
			}
			expectOnly(k, o.cls, kind)
			if interrupted && !hasCls(o.cls, "retry") {
				add("retry-handle", fmt.Sprintf("op %d (%s) interrupted by its context returned an error without a retry handle", k, op.Kind), nil)
			}
		case connC != nil && ctxC == nil && !preCancelled:
			blockedBefore := invT < connC.t
			if connC.kind == "refused" {
				if op.Kind == "connect" {
					expectOnly(k, o.cls, "connfailed")
				}
				continue
			}
			if blockedBefore {
				// waiting when the connection ended
				if op.Kind == "connect" || op.Kind == "ping" || interrupted {
					expectOnly(k, o.cls, "closed")
				}
				if interrupted && !hasCls(o.cls, "retry") {
					add("retry-handle", fmt.Sprintf("op %d (%s) interrupted by the connection ending returned an error without a retry handle", k, op.Kind), nil)
				}
			} else {
				// call on a dead link: the transport's own error must be findable
				want := "simbroken"
				if connC.kind == "localclose" {
					want = "simclosed"
				}
				if op.Kind == "disconnect" || op.Kind == "connect" {
					continue
				}
				if !hasCls(o.cls, want) && !hasCls(o.cls, "simclosed") && !hasCls(o.cls, "simbroken") && !hasCls(o.cls, "closed") {
					add("sentinel", fmt.Sprintf("op %d (%s) on a dead link: neither the transport's error nor ErrClosedTransport is in the chain of %q", k, op.Kind, o.err), nil)
				}
				if interrupted && !hasCls(o.cls, "retry") {
					add("retry-handle", fmt.Sprintf("op %d (%s) failed writing on a dead link and returned an error without a retry handle", k, op.Kind), nil)
				}
			}
		}
	}
	// a request whose own Write failed with an injected transport error: that
	// error stays findable, it is never collapsed to bare io.EOF, and the request
	// keeps its retry handle
	for k := range sc.Ops {
		op := &sc.Ops[k]
		o := ix.ops[k]
		if !blockingKind(op) || o.inv < 0 || o.ret < 0 || o.ret >= ix.end() || o.err == "" {
			continue
		}
		own, look := false, false
		for i := o.inv; i <= o.ret; i++ {
			r := &ix.tr[i]
			if r.Kind == "write" && r.B && r.Conn == op.Cli+1 && r.T == ix.tr[o.ret].T {
				own = true
				look = r.Err == ErrSimLookalike.Error()
			}
		}
		if !own || op.Kind == "connect" || op.Kind == "disconnect" || op.Kind == "ping" {
			continue
		}
		if look && hasCls(o.cls, "closed") {
			// the transport's error only looks like the sentinel (same type, same
			// text): the sentinel itself is nowhere in the chain
			add("no-false-sentinel", fmt.Sprintf("op %d (%s): errors.Is reports ErrClosedTransport for %q, whose chain only holds a foreign error with the same text", k, op.Kind, o.err), map[string]string{"got": "closed", "via": "lookalike"})
		}
		if !hasCls(o.cls, "simwrite") && !hasCls(o.cls, "simwriteeof") && !hasCls(o.cls, "simlook") {
			add("sentinel", fmt.Sprintf("op %d (%s): its Write failed with the transport's error, which errors.Is no longer finds in %q", k, op.Kind, o.err), map[string]string{"want": "transport-error"})
		}
		if hasCls(o.cls, "eof=") {
			add("no-false-sentinel", fmt.Sprintf("op %d (%s): a transport error that merely wraps io.EOF came back as bare io.EOF", k, op.Kind), map[string]string{"got": "eof="})
		}
		interrupted := op.Kind == "publish" && op.QoS > 0 || op.Kind == "subscribe" || op.Kind == "unsubscribe" || op.Kind == "retryhandle"
		if interrupted && !hasCls(o.cls, "retry") {
			add("retry-handle", fmt.Sprintf("op %d (%s): its Write failed and the error carries no retry handle (%q)", k, op.Kind, o.err), map[string]string{"kind": "write-failed"})
		}
	}
	// a context error must be the error of the context the caller passed
	for k := range sc.Ops {
		op := &sc.Ops[k]
		o := ix.ops[k]
		if !blockingKind(op) || o.ret < 0 || o.ret >= ix.end() || o.err == "" {
			continue
		}
		if (hasCls(o.cls, "canceled") || hasCls(o.cls, "deadline")) && !o.ctxDone {
			add("no-false-sentinel", fmt.Sprintf("op %d (%s) returned %q although the context it was given is still alive", k, op.Kind, o.err), map[string]string{"got": "foreign-context"})
		}
	}
	// validation errors and calls before Connect: right sentinel, nothing written
	connectAt := -1
	for k, op := range sc.Ops {
		if op.Kind == "connect" && op.Cli == 0 && ix.ops[k].inv >= 0 {
			connectAt = ix.ops[k].inv
		}
	}
	wrote := func(k int) bool {
		op := sc.Ops[k]
		for i := range ix.tr {
			r := &ix.tr[i]
			if (r.Kind == "tx" || r.Kind == "txfail") && r.P.Type == TPublish && op.Kind == "publish" && tokenOf(r.P.Pay) == op.Token {
				return true
			}
		}
		return false
	}
	for k := range sc.Ops {
		op := &sc.Ops[k]
		o := ix.ops[k]
		if o.inv < 0 || o.ret < 0 || op.Cli != 0 {
			continue
		}
		switch {
		case op.Kind == "publish" && op.QoS > 2:
			if !hasCls(o.cls, "invqos") {
				add("sentinel", fmt.Sprintf("op %d: publish with QoS %d returned %q, want ErrInvalidQoS", k, op.QoS, o.err), map[string]string{"want": "invqos"})
			}
			if wrote(k) {
				add("sentinel", fmt.Sprintf("op %d: publish with QoS %d was written to the transport", k, op.QoS), map[string]string{"want": "nothing-written"})
			}
		case op.Kind == "publish" && sc.Cfg.MaxPayloadLen > 0 && op.PayLen > sc.Cfg.MaxPayloadLen:
			if !hasCls(o.cls, "paylen") {
				add("sentinel", fmt.Sprintf("op %d: payload of %d bytes (maximum %d) returned %q, want ErrPayloadLenExceeded", k, op.PayLen, sc.Cfg.MaxPayloadLen, o.err), map[string]string{"want": "paylen"})
			}
			if wrote(k) {
				add("sentinel", fmt.Sprintf("op %d: oversize payload was written to the transport", k), map[string]string{"want": "nothing-written"})
			}
		case connectAt >= 0 && o.inv < connectAt && o.ret < connectAt && blockingKind(op) && op.Kind != "connect" && op.Kind != "disconnect" && op.Kind != "retryhandle":
			if !hasCls(o.cls, "notconn") {
				add("sentinel", fmt.Sprintf("op %d (%s) before Connect returned %q, want ErrNotConnected", k, op.Kind, o.err), map[string]string{"want": "notconn"})
			}
			for _, s2 := range []string{"closed", "invpkt", "canceled", "deadline"} {
				if hasCls(o.cls, s2) {
					add("no-false-sentinel", fmt.Sprintf("op %d (%s) before Connect: errors.Is reports %s", k, op.Kind, s2), nil)
				}
			}
		}
	}
	// Err() of the connection: io.EOF passed through, malformed input classified
	for conn, e := range firstEnd {
		var last *Rec
		for i := range ix.tr {
			if i >= ix.end() {
				break
			}
			r := &ix.tr[i]
			if r.Kind == "sample" && r.Conn == conn && r.B {
				last = r
			}
		}
		if last == nil {
			continue
		}
		// only when this cause is the only one for the connection
		n := 0
		for _, c := range cs {
			if c.op < 0 && c.conn == conn {
				n++
			}
		}
		if n != 1 {
			continue
		}
		switch e.kind {
		case "peereof":
			if !hasCls(last.Cls, "eof=") {
				add("sentinel", fmt.Sprintf("conn %d ended by the peer's FIN but Err() is %q, not io.EOF itself", conn, last.Err), map[string]string{"want": "eof="})
			}
		case "malformed":
			if !hasCls(last.Cls, "invpkt") && !hasCls(last.Cls, "invlen") && !hasCls(last.Cls, "invrune") {
				add("sentinel", fmt.Sprintf("conn %d ended by a malformed packet but Err() %q matches none of ErrInvalidPacket/ErrInvalidPacketLength/ErrInvalidRune", conn, last.Err), map[string]string{"want": "invpkt"})
			}
		}
	}
	// retry handle re-issues the same request: C12's field rules on the wire
	checkRetryHandleSame(ix, add)
}

func checkRetryHandleSame(ix *index, add addFn) {
	sc := ix.sc
	for k, op := range sc.Ops {
		if op.Kind != "retryhandle" || ix.ops[k].inv < 0 || ix.ops[k].extra == "nohandle" {
			continue
		}
		// root request
		root := op.Target
		for sc.Ops[root].Kind == "retryhandle" {
			root = sc.Ops[root].Target
		}
		ro := sc.Ops[root]
		// what did this retry put on its connection?
		conn := op.Cli + 1
		var first *Pkt
		for i := ix.ops[k].inv; i < len(ix.tr); i++ {
			r := &ix.tr[i]
			if (r.Kind == "tx" || r.Kind == "txfail") && r.Conn == conn && r.P.Type != TConnect {
				first = r.P
				break
			}
			if r.T != ix.tr[ix.ops[k].inv].T {
				break
			}
		}
		if first == nil {
			if hasCls(ix.ops[k].cls, "notconn") {
				continue
			}
			add("retry-handle", fmt.Sprintf("op %d: Retry on a fresh client transmitted nothing (err=%q)", k, ix.ops[k].err), nil)
			continue
		}
		// completion: once the acknowledgement that ends the exchange has arrived on
		// the client it was given, Retry returns success
		finalType, finalAfter := 0, -1
		for i := ix.ops[k].inv; i < len(ix.tr) && i < ix.end(); i++ {
			r := &ix.tr[i]
			if r.Kind != "tx" || r.Conn != conn {
				continue
			}
			switch {
			case r.P.Type == TPublish && r.P.QoS == 1 && finalType == 0:
				finalType, finalAfter = TPubAck, i
			case r.P.Type == TPubRel:
				finalType, finalAfter = TPubComp, i
			case r.P.Type == TSubscribe && finalType == 0:
				finalType, finalAfter = TSubAck, i
			case r.P.Type == TUnsubscribe && finalType == 0:
				finalType, finalAfter = TUnsubAck, i
			}
		}
		if finalType != 0 && ix.complete {
			if a := ix.rxAfter(conn, finalType, first.ID, finalAfter); a >= 0 {
				o := ix.ops[k]
				if o.ret < 0 || o.ret >= ix.end() {
					add("retry-handle", fmt.Sprintf("op %d: Retry on client %d had not returned although %s(id=%d) arrived on it", k, op.Cli, typeNames[finalType], first.ID), map[string]string{"kind": "completion"})
				} else if o.err != "" && o.ret > a {
					add("retry-handle", fmt.Sprintf("op %d: Retry on client %d failed (%s) although %s(id=%d) had arrived on it", k, op.Cli, o.err, typeNames[finalType], first.ID), map[string]string{"kind": "completion"})
				}
			}
		}
		switch ro.Kind {
		case "publish":
			ok := first.Type == TPublish && tokenOf(first.Pay) == ro.Token && first.Topic == ro.Topic && first.QoS == ro.QoS && first.Retain == ro.Retain
			ok = ok || first.Type == TPubRel // QoS 2 already in its second phase
			// once the PUBREC of the message has reached the client the exchange is
			// in its second phase for good: the handle of a later interruption
			// re-issues PUBREL, never the PUBLISH
			if ok && first.Type == TPublish && ro.QoS == 2 {
				for _, j := range ix.rx {
					if j >= ix.ops[k].inv {
						break
					}
					if q := &ix.tr[j]; q.P != nil && q.P.Type == TPubRec && q.P.ID == first.ID && q.Conn != conn {
						add("retry-handle", fmt.Sprintf("op %d: Retry transmitted %s although the PUBREC of that message had been received on conn %d", k, first, q.Conn), map[string]string{"kind": "second-phase"})
						ok = true
						break
					}
				}
			}
			if !ok {
				add("retry-handle", fmt.Sprintf("op %d: Retry of publish %s transmitted %s", k, ro.Token, first), nil)
			}
		case "subscribe":
			if first.Type != TSubscribe || subsKey(first.Subs) != subsKey(ro.Subs) {
				add("retry-handle", fmt.Sprintf("op %d: Retry of subscribe %s transmitted %s", k, subsKey(ro.Subs), first), nil)
			}
		case "unsubscribe":
			if first.Type != TUnsubscribe || strings.Join(first.Topics, ",") != strings.Join(ro.Topics, ",") {
				add("retry-handle", fmt.Sprintf("op %d: Retry of unsubscribe %v transmitted %s", k, ro.Topics, first), nil)
			}
		}
	}
}

// checkC19Retry: retrying client — response timeout is identifiable.
func checkC19Retry(ix *index, add addFn) {
	// an acknowledgement dropped with a response timeout configured: the error
	// that reaches OnError is identifiable as RequestTimeoutError (C18's
	// abandons rule, read as a statement about the error)
	checkC18(ix, func(rule, detail string, feat map[string]string) {
		if rule == "abandons" {
			add("sentinel", "no error identifiable as RequestTimeoutError: "+detail, map[string]string{"want": "reqtimeout"})
		}
	})
	// a Connect of the reconnecting client that gave up because its context
	// ended reports that context's error, whatever the attempts before met
	// (refused CONNACK, dial error)
	checkC11Reconn(ix, func(rule, detail string, feat map[string]string) {
		if rule == "ctx-error" {
			add("sentinel", detail, map[string]string{"want": "ctx"})
		}
	})
	for i := range ix.tr {
		r := &ix.tr[i]
		if r.Kind != "onerror" {
			continue
		}
		if strings.Contains(r.Err, "request timeout exceeded") && !hasCls(r.Cls, "reqtimeout") {
			add("sentinel", fmt.Sprintf("OnError got %q which errors.As does not identify as RequestTimeoutError", r.Err), nil)
		}
		// requests run with the task loop's own background context: a deadline that
		// reaches OnError can only be the response timeout, first transmission or
		// retransmission alike
		if hasCls(r.Cls, "deadline") && !hasCls(r.Cls, "reqtimeout") && ix.sc.Cfg.ResponseTimeoutUs != 0 {
			add("sentinel", fmt.Sprintf("OnError got %q (a deadline) which errors.As does not identify as RequestTimeoutError although a response timeout is configured", r.Err), map[string]string{"want": "reqtimeout"})
		}
		if hasCls(r.Cls, "reqtimeout") && ix.sc.Cfg.ResponseTimeoutUs == 0 {
			add("no-false-sentinel", fmt.Sprintf("RequestTimeoutError reported (%q) although no response timeout is configured", r.Err), nil)
		}
	}
}

// ---------------------------------------------------------------- C15

func checkC15(ix *index, add addFn) {
	sc := ix.sc
	preset := map[string]uint16{}
	for _, op := range sc.Ops {
		if op.Kind == "publish" && op.PresetID != 0 {
			preset[op.Token] = op.PresetID
		}
	}
	for i := range ix.tr {
		r := &ix.tr[i]
		if r.Kind == "txbad" && strings.Contains(r.S, "id 0") {
			add("zero", fmt.Sprintf("conn %d: %s", r.Conn, r.S), nil)
			return
		}
	}
	type key struct {
		conn int
		id   uint16
	}
	outstanding := map[key]int{} // -> number of requests transmitted since it became outstanding
	allocs := map[int]int{}
	firstTx := map[string]bool{}
	for i := range ix.tr {
		r := &ix.tr[i]
		switch r.Kind {
		case "tx":
			p := r.P
			isReq := p.Type == TPublish && p.QoS > 0 || p.Type == TSubscribe || p.Type == TUnsubscribe
			if !isReq {
				continue
			}
			tok := ""
			if p.Type == TPublish {
				tok = tokenOf(p.Pay)
				if want, ok := preset[tok]; ok {
					if p.ID != want {
						add("preset-kept", fmt.Sprintf("message %s: caller put id %d on it, wire carries %d", tok, want, p.ID), nil)
					}
					continue // not an identifier chosen by the client
				}
				if firstTx[tok] {
					continue // retransmission keeps its id
				}
				firstTx[tok] = true
			}
			if sc.Cfg.Client != "base" {
				continue // uniqueness is judged on one BaseClient's counter; here only zero / preset-kept
			}
			allocs[r.Conn]++
			k := key{r.Conn, p.ID}
			if since, busy := outstanding[k]; busy {
				feat := map[string]string{"allocations_between": "lt65535"}
				if allocs[r.Conn]-since >= 65535 {
					feat["allocations_between"] = "ge65535"
				}
				add("unique", fmt.Sprintf("conn %d: id %d given to %s while an earlier request with that id is still outstanding (%d allocations in between)", r.Conn, p.ID, p.Name(), allocs[r.Conn]-since), feat)
				return
			}
			outstanding[k] = allocs[r.Conn]
		case "rx":
			if r.P == nil {
				continue
			}
			switch r.P.Type {
			case TPubAck, TPubComp, TSubAck, TUnsubAck:
				delete(outstanding, key{r.Conn, r.P.ID})
			}
		}
	}
}
