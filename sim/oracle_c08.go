package sim

import (
	"fmt"
	"sort"
	"strings"
)

// connInfo summarises one connection from the trace.
type connInfo struct {
	k        int
	dialAt   int // trace index of "dial"
	dialDone int // trace index of "dialdone"
	dialErr  string
	connack  int  // rx CONNACK index (-1)
	accepted bool // CONNACK code 0
	sp       bool
	endAt    int    // first cut/close index (-1)
	endKind  string // cut | close
	activeAt int
}

func (ix *index) connInfos() map[int]*connInfo {
	m := map[int]*connInfo{}
	get := func(k int) *connInfo {
		c := m[k]
		if c == nil {
			c = &connInfo{k: k, dialAt: -1, dialDone: -1, connack: -1, endAt: -1, activeAt: -1}
			m[k] = c
		}
		return c
	}
	for i := range ix.tr {
		if i >= ix.end() {
			break // teardown is not part of the judged history
		}
		r := &ix.tr[i]
		switch r.Kind {
		case "dial":
			get(r.Conn).dialAt = i
		case "dialdone":
			c := get(r.Conn)
			c.dialDone = i
			c.dialErr = r.Err
		case "rx":
			if r.P != nil && r.P.Type == TConnAck {
				c := get(r.Conn)
				if c.connack < 0 {
					c.connack = i
					c.accepted = r.P.Code == 0
					c.sp = r.P.SessionPresent
				}
			}
		case "cut", "close":
			c := get(r.Conn)
			if c.endAt < 0 {
				c.endAt = i
				c.endKind = r.Kind
			}
		case "state":
			if r.S == "Active" {
				c := get(r.Conn)
				if c.activeAt < 0 {
					c.activeAt = i
				}
			}
		}
	}
	return m
}

func refTable(ix *index) string {
	ref := map[string]byte{}
	type e struct{ op, inv int }
	var order []e
	for i, op := range ix.sc.Ops {
		if (op.Kind == "subscribe" || op.Kind == "unsubscribe") && ix.accepted(i) {
			order = append(order, e{i, ix.ops[i].inv})
		}
	}
	sort.Slice(order, func(a, b int) bool { return order[a].inv < order[b].inv })
	for _, x := range order {
		op := ix.sc.Ops[x.op]
		if op.Kind == "subscribe" {
			for _, sr := range op.Subs {
				ref[sr.Filter] = sr.QoS
			}
		} else {
			for _, t := range op.Topics {
				delete(ref, t)
			}
		}
	}
	var ks []string
	for f := range ref {
		ks = append(ks, f)
	}
	sort.Strings(ks)
	var sb strings.Builder
	for _, f := range ks {
		fmt.Fprintf(&sb, "%s=%d;", f, ref[f])
	}
	return sb.String()
}

func checkC08(ix *index, add addFn) {
	sc := ix.sc
	conns := ix.connInfos()
	// no-resub-when-kept (safety, evaluated on the whole trace)
	firstOK := -1
	for k := 1; k <= len(conns)+8; k++ {
		if c := conns[k]; c != nil && c.accepted {
			firstOK = k
			break
		}
	}
	calls := func(key string, before int) int {
		n := 0
		for i, op := range sc.Ops {
			if op.Kind == "subscribe" && ix.ops[i].inv >= 0 && ix.ops[i].inv < before && subsKey(op.Subs) == key {
				n++
			}
		}
		return n
	}
	// resubGenerators: connections (other than the first) on which the client
	// was entitled to issue re-subscription requests. Each can have generated at
	// most one single-filter request per filter; such a request may fail before it
	// is ever transmitted and legitimately be retried on a later connection.
	resubGenerators := func(before int) int {
		n := 0
		for k, c := range conns {
			if k == firstOK || !c.accepted || c.activeAt < 0 || c.activeAt >= before {
				continue
			}
			if !c.sp || sc.Cfg.AlwaysResub {
				n++
			}
		}
		return n
	}
	ackedBefore := func(key string, before int) int {
		n := 0
		for _, j := range ix.tx {
			if j >= before {
				break
			}
			r := &ix.tr[j]
			if r.P.Type == TSubscribe && subsKey(r.P.Subs) == key {
				if a := ix.rxAfter(r.Conn, TSubAck, r.P.ID, j); a >= 0 && a < before {
					// bytes made readable in the very instant in which the link was
					// reset may never have been read: such a SUBACK is not counted
					lost := false
					for k := a; k < len(ix.tr) && ix.tr[k].T == ix.tr[a].T; k++ {
						if q := &ix.tr[k]; q.Kind == "cut" && q.Conn == r.Conn {
							lost = true
						}
					}
					if !lost {
						n++
					}
				}
			}
		}
		return n
	}
	if sc.Cfg.Client == "reconnect" {
		for _, i := range ix.tx {
			r := &ix.tr[i]
			if r.P.Type != TSubscribe {
				continue
			}
			c := conns[r.Conn]
			if c == nil || !c.accepted {
				continue
			}
			kept := r.Conn == firstOK || (c.sp && !sc.Cfg.AlwaysResub)
			if !kept {
				continue
			}
			key := subsKey(r.P.Subs)
			needs := calls(key, i)
			if len(r.P.Subs) == 1 {
				needs += resubGenerators(i)
			}
			if ackedBefore(key, i) < needs {
				continue // first transmission or retry of something still unacknowledged
			}
			why := "session was kept"
			if r.Conn == firstOK {
				why = "first connection"
			}
			add("no-resub-when-kept", fmt.Sprintf("conn %d (%s): SUBSCRIBE %s although every such request was already acknowledged", r.Conn, why, key), nil)
			break
		}
	}
	if !ix.complete || ix.discAt >= 0 || !ix.connectCalled() {
		return
	}
	// a session loss the client could not observe (the CONNACK announcing
	// sessionPresent=0 never reached it, and the next CONNECT found the new, empty
	// session) is indistinguishable from a kept session: no client can converge
	// there, the statement's premise "the broker did not keep the session" is
	// only observable through CONNACK.
	for i := range ix.tr {
		r := &ix.tr[i]
		if r.Kind == "sessreset" && r.S == "sessionLoss" {
			if c := conns[r.Conn]; c == nil || c.connack < 0 {
				return
			}
		}
	}
	// table
	got := ""
	for i := ix.judge; i < len(ix.tr); i++ {
		if ix.tr[i].Kind == "subtable" {
			got = ix.tr[i].S
			break
		}
	}
	want := refTable(ix)
	if got == "<no session>" {
		got = ""
	}
	if got != want {
		add("table", fmt.Sprintf("broker subscription table %q, net effect of the application's calls %q", got, want), nil)
	}
}

// ---------------------------------------------------------------- C09

func checkC09(ix *index, add addFn) {
	sc := ix.sc
	cfg := &sc.Cfg
	if cfg.Client != "reconnect" {
		return
	}
	conns := ix.connInfos()
	var ks []int
	for k := range conns {
		ks = append(ks, k)
	}
	sort.Ints(ks)
	// stop: cancellation of Connect's context before the first success
	stopAt := -1
	stopWhy := ""
	if ix.discAt >= 0 {
		stopAt, stopWhy = ix.discAt, "Disconnect"
	}
	firstOK := -1
	for _, k := range ks {
		if conns[k].accepted && conns[k].activeAt >= 0 {
			// the first connection has succeeded once its accepting CONNACK has
			// reached the client (a context that ends after that arrives "while
			// connected", even if Active is announced a little later)
			firstOK = conns[k].connack
			break
		}
	}
	connOp := -1
	for i, op := range sc.Ops {
		if op.Kind == "connect" {
			connOp = i
			break
		}
	}
	if connOp < 0 {
		return
	}
	if o := ix.ops[connOp]; o.ret >= 0 && o.err != "" && o.ctxErr && (firstOK < 0 || o.ret < firstOK) {
		if stopAt < 0 || o.ret < stopAt {
			stopAt, stopWhy = o.ret, "Connect returned its context's error"
		}
	}
	// one-transport + stop + backoff
	base := cfg.ReconnBaseUs * 1000
	max := cfg.ReconnMaxUs * 1000
	fails := 0 // consecutive unsuccessful endings
	lastEndT := int64(-1)
	for _, k := range ks {
		c := conns[k]
		if c.dialAt < 0 {
			continue
		}
		if stopAt >= 0 && c.dialAt > stopAt {
			// the step in which the stop cause was applied may still contain a dial
			// that started before the cause was observed; a later step may not
			if ix.tr[c.dialAt].T > ix.tr[stopAt].T {
				add("stop", fmt.Sprintf("dial %d started at t=%dns after %s (t=%dns)", k, ix.tr[c.dialAt].T, stopWhy, ix.tr[stopAt].T), nil)
				return
			}
		}
		// no earlier transport open
		for _, k2 := range ks {
			if k2 >= k {
				break
			}
			c2 := conns[k2]
			if c2.dialDone >= 0 && c2.dialErr == "" && (c2.endAt < 0 || c2.endAt > c.dialAt) {
				add("one-transport", fmt.Sprintf("dial %d started while transport %d was still open", k, k2), nil)
				return
			}
		}
		// back-off lower bound
		if lastEndT >= 0 && fails > 0 {
			// the first wait of a series is the configured base delay as it is, also
			// when the maximum is set below it; the maximum caps the doubling
			want := base
			for j := 1; j < fails; j++ {
				want *= 2
				if want > max {
					want = max
					break
				}
			}
			gap := ix.tr[c.dialAt].T - lastEndT
			if gap < want {
				add("backoff", fmt.Sprintf("dial %d started %dns after the previous attempt ended; lower bound after %d consecutive failure(s) is %dns", k, gap, fails, want), nil)
				return
			}
		}
		// how did this attempt end?
		endIdx := -1
		if c.dialDone >= 0 && c.dialErr != "" {
			endIdx = c.dialDone
		} else if c.endAt >= 0 {
			endIdx = c.endAt
			// the transport counts as ended when both sides are done: use the
			// later of cut/close only for one-transport; for the back-off the
			// attempt ends when the client can know, i.e. at the first of them
		}
		if endIdx < 0 {
			lastEndT = -1
			continue
		}
		lastEndT = ix.tr[endIdx].T
		if c.accepted && c.activeAt >= 0 {
			fails = 1 // loss of an established connection: n = 1
		} else {
			fails++
		}
	}
	// connect-first: first packet of every connection is CONNECT, exactly one,
	// with the options the application passed
	seenConnect := map[int]int{}
	firstPkt := map[int]bool{}
	for _, i := range ix.tx {
		r := &ix.tr[i]
		if !firstPkt[r.Conn] {
			firstPkt[r.Conn] = true
			if r.P.Type != TConnect {
				add("connect-first", fmt.Sprintf("conn %d: first packet is %s", r.Conn, r.P.Name()), nil)
				return
			}
		}
		if r.P.Type == TConnect {
			seenConnect[r.Conn]++
			if seenConnect[r.Conn] > 1 {
				add("connect-first", fmt.Sprintf("conn %d: second CONNECT", r.Conn), nil)
				return
			}
			p := r.P
			lvl := byte(4)
			if cfg.ProtoLevel3 {
				lvl = 3
			}
			ok := p.ClientID == cfg.ClientID && p.CleanSession == cfg.CleanSession && p.KeepAlive == cfg.KeepAliveSec &&
				p.ProtoLevel == lvl &&
				p.HasWill == (cfg.WillTopic != "") && p.WillTopic == cfg.WillTopic && p.WillPay == cfg.WillPay &&
				(!p.HasWill || (p.WillQoS == cfg.WillQoS && p.WillRetain == cfg.WillRetain)) &&
				p.HasUser == (cfg.User != "") && p.User == cfg.User && p.HasPass == (cfg.Pass != "") && p.Pass == cfg.Pass
			if !ok {
				add("connect-first", fmt.Sprintf("conn %d: CONNECT %s does not carry the application's options", r.Conn, p), nil)
				return
			}
		}
	}
	// disconnect-returns
	for i, op := range sc.Ops {
		if op.Kind != "disconnect" || ix.ops[i].inv < 0 || strings.HasPrefix(ix.ops[i].extra, "skipped") {
			continue
		}
		o := ix.ops[i]
		if o.ret < 0 || o.ret >= ix.end() {
			// (a return during teardown, after the judgement, does not count)
			if ix.complete && op.CtxTimeoutUs == 0 && disconnectObservable(ix, o.inv) {
				add("disconnect-returns", fmt.Sprintf("Disconnect (op %d) had not returned when the run was judged", i), nil)
			}
			if op.CtxTimeoutUs > 0 {
				add("disconnect-returns", fmt.Sprintf("Disconnect (op %d) with a %dus deadline had not returned when the run was judged", i, op.CtxTimeoutUs), nil)
			}
			continue
		}
		if op.CtxTimeoutUs > 0 {
			dl := ix.tr[o.inv].T + op.CtxTimeoutUs*1000
			if ix.tr[o.ret].T > dl {
				add("disconnect-returns", fmt.Sprintf("Disconnect returned %dns after its context's deadline", ix.tr[o.ret].T-dl), nil)
			}
		}
	}
	// redial: after an unexpected end and no stop, a new dial starts
	if !ix.complete || stopAt >= 0 {
		return
	}
	if len(ks) == 0 {
		return
	}
	lastK := ks[len(ks)-1]
	lc := conns[lastK]
	ended := (lc.dialDone >= 0 && lc.dialErr != "") || lc.endAt >= 0
	if ended {
		// local Close by the application is an unexpected end as well
		add("redial", fmt.Sprintf("attempt %d ended and no new dial had started when the run was judged", lastK), nil)
	}
}

// disconnectObservable: false when the loop was, at the time of the call, in
// a phase that can last for ever through no fault of the client (waiting for a
// CONNACK that never comes without a connect timeout).
func disconnectObservable(ix *index, inv int) bool {
	if ix.sc.Cfg.TimeoutUs != 0 {
		return true
	}
	for _, f := range ix.sc.Faults {
		if f.Kind == "connackNever" || f.Kind == "silentFrom" || f.Kind == "dropB2C" || f.Kind == "dropC2B" {
			return false
		}
	}
	return true
}
