package sim

import "fmt"

// genRace: concurrent compositions for engine R (C10, parallel half of C15).
// Ops of one phase share one fake instant and run on their own goroutines.
func genRace(r *Rng, prop string) *Scenario {
	sc := &Scenario{}
	cfg := &sc.Cfg
	cfg.ClientID = "cid"
	cfg.LatC2BUs, cfg.LatB2CUs, cfg.DialLatUs = 10, 10, 5
	cfg.BrokerMethod = r.pick("A", "B")
	cfg.AutoPubRel = true
	if prop == "C17" {
		return genRaceC17(r, sc)
	}
	if prop == "C16" {
		return genRaceC16(r, sc)
	}
	kind := r.weighted(3, 5, 2)
	if prop == "C15" || prop == "C07" {
		kind = 0
	}
	if kind == 2 {
		return genRaceManual(r, sc)
	}
	actor := 10
	addOp := func(op Op) {
		actor++
		op.Actor = actor
		sc.Ops = append(sc.Ops, op)
		if op.Kind == "ping" && op.Token == "precancel" && op.OnDial == 0 {
			sc.Ops = append(sc.Ops, Op{AtUs: op.AtUs, Actor: -1, Kind: "cancel", Target: len(sc.Ops) - 1})
		}
	}
	tok := 0
	request := func(t int64, direct bool) Op {
		op := Op{AtUs: t}
		switch r.weighted(5, 3, 2, 2, 3, 1) {
		case 0:
			tok++
			op.Kind, op.QoS, op.Topic, op.Token = "publish", byte(r.IntN(3)), topics[r.IntN(len(topics))], fmt.Sprintf("m%d", tok)
			if r.chance(0.3) {
				op.PayLen = int(r.pickI(300, 5000, 9000, 20000)) // packets larger than any plausible chunk size
			}
		case 1:
			op.Kind, op.Subs = "subscribe", []SubReq{{filters[r.IntN(len(filters))], byte(r.IntN(3))}}
		case 2:
			op.Kind, op.Topics = "unsubscribe", []string{filters[r.IntN(len(filters))]}
		case 3:
			op.Kind = "ping"
			if r.chance(0.5) {
				op.Token = "precancel" // called with a context that is already cancelled: given up at once
			}
		case 4:
			op.Kind, op.Repeat = "probe", int(r.between(1, 40))
		case 5:
			op.Kind, op.Handler = "handle", 1+r.IntN(2)
		}
		return op
	}
	if kind == 0 && prop != "C15" && prop != "C07" && r.chance(0.3) {
		return genRaceHeld(r, sc)
	}
	if kind == 0 {
		// BaseClient: concurrent callers + inbound traffic acknowledged by the reader
		cfg.Client = "base"
		cfg.InitIDs = []uint32{uint32(r.pickI(0xFFF0, 0xFFFA, 0, 0x7FFF, 0x1FFF8))}
		if prop == "C10" && r.chance(0.15) {
			// a peer that answers before it was asked: its CONNACK is readable when
			// the reader goroutine starts, while Connect is still preparing
			cfg.EarlyConnAck = true
		}
		hk := 1
		if r.chance(0.4) {
			hk = 7 // a handler that keeps reading its message on its own goroutine
		}
		sc.Ops = append(sc.Ops, Op{AtUs: 0, Actor: 1, Kind: "handle", Handler: hk})
		sc.Ops = append(sc.Ops, Op{AtUs: 1, Actor: 0, Kind: "connect"})
		t := int64(1000)
		for ph := 0; ph < int(r.between(1, 3)); ph++ {
			if r.chance(0.4) {
				// tiny inbound packets back to back (bodies of a few bytes)
				for i := 0; i < int(r.between(2, 6)); i++ {
					sc.Script = append(sc.Script, Out{Conn: 1, AtUs: t, Kind: "pkt", Pkt: &Pkt{Type: TPublish, QoS: 0, Topic: "a", Pay: fmt.Sprintf("%d", i)}})
				}
			}
			n := int(r.between(2, 8))
			if prop == "C15" {
				n = int(r.between(8, 64))
			}
			if prop != "C15" && r.chance(0.5) {
				// a burst of large packets from many writers plus acknowledgements from
				// the reader: any write that is not atomic per packet shows as an
				// interleaved byte stream
				for i := 0; i < int(r.between(3, 8)); i++ {
					tok++
					addOp(Op{AtUs: t, Kind: "publish", QoS: byte(r.IntN(2)), Topic: "a", Token: fmt.Sprintf("m%d", tok), PayLen: int(r.pickI(9000, 20000, 40000, 70000))})
				}
				for i := 0; i < 4; i++ {
					sc.Script = append(sc.Script, Out{Conn: 1, AtUs: t, Kind: "pkt", Pkt: &Pkt{Type: TPublish, QoS: 1, ID: uint16(200 + ph*10 + i), Topic: "a/x", Pay: fmt.Sprintf("inb%d_%d", ph, i)}})
				}
			}
			if ph == 0 && prop != "C15" && (r.chance(0.25) || (prop == "C07" && r.chance(0.6))) {
				// cold start: the first requests of one kind this client ever makes,
				// all at once (whatever a request sets up on first use is set up by
				// several callers at the same moment)
				same := r.IntN(5)
				for i := 0; i < int(r.between(4, 10)); i++ {
					op := Op{AtUs: t}
					switch same {
					case 0, 1:
						tok++
						op.Kind, op.QoS, op.Topic, op.Token = "publish", byte(1+same), topics[r.IntN(len(topics))], fmt.Sprintf("m%d", tok)
					case 2:
						op.Kind, op.Subs = "subscribe", []SubReq{{filters[i%len(filters)], byte(r.IntN(3))}}
					case 3:
						op.Kind, op.Topics = "unsubscribe", []string{filters[i%len(filters)]}
					default:
						op.Kind = "ping"
					}
					addOp(op)
				}
				n = 0
			}
			for i := 0; i < n; i++ {
				op := request(t, true)
				if prop == "C15" && (op.Kind == "ping" || op.Kind == "probe" || op.Kind == "handle") {
					tok++
					op = Op{AtUs: t, Kind: "publish", QoS: 1, Topic: "a", Token: fmt.Sprintf("m%d", tok)}
				}
				addOp(op)
			}
			for i := 0; i < int(r.between(0, 4)); i++ {
				q := byte(r.IntN(3))
				p := &Pkt{Type: TPublish, QoS: q, Topic: "a/x", Pay: fmt.Sprintf("in%d_%d", ph, i)}
				if q > 0 {
					p.ID = uint16(100 + ph*10 + i)
				}
				sc.Script = append(sc.Script, Out{Conn: 1, AtUs: t, Kind: "pkt", Pkt: p})
			}
			t += 2000
		}
		if prop != "C07" && r.chance(0.3) {
			sc.Ops = append(sc.Ops, Op{AtUs: t - 1000, Actor: -1, Kind: "close"})
			for i := 0; i < 3; i++ {
				addOp(request(t-1000, true))
			}
		}
		sc.HorizonUs, sc.EndUs = t+2000, t+4000
		return sc
	}
	// ReconnectClient: callers, probes and reconnects at once
	cfg.Client = "reconnect"
	cfg.ReconnBaseUs, cfg.ReconnMaxUs = 200, 800
	cfg.InitIDs = spacedInitIDs(r, 12)
	cfg.DirectQoS0 = r.chance(0.3)
	// sessions that are not kept / re-subscription on every connection: the
	// reconnect loop calls Resubscribe while subscribe / unsubscribe requests run
	cfg.CleanSession = r.chance(0.4)
	cfg.AlwaysResub = r.chance(0.3)
	if r.chance(0.5) {
		cfg.PingIntervalUs, cfg.KeepAliveSec, cfg.TimeoutUs = 700, 1, 500
	}
	if r.chance(0.3) {
		cfg.ResponseTimeoutUs = 3000
	}
	sc.Ops = append(sc.Ops, Op{AtUs: 0, Actor: 1, Kind: "handle", Handler: 1})
	sc.Ops = append(sc.Ops, Op{AtUs: 1, Actor: 0, Kind: "connect"})
	t := int64(500)
	conn := 1
	for ph := 0; ph < int(r.between(2, 4)); ph++ {
		n := int(r.between(2, 8))
		for i := 0; i < n; i++ {
			addOp(request(t, false))
		}
		for i := 0; i < int(r.between(0, 3)); i++ {
			q := byte(r.IntN(3))
			p := &Pkt{Type: TPublish, QoS: q, Topic: "a/x", Pay: fmt.Sprintf("in%d_%d", ph, i)}
			if q > 0 {
				p.ID = uint16(100 + ph*10 + i)
			}
			sc.Script = append(sc.Script, Out{Conn: conn, AtUs: t, Kind: "pkt", Pkt: p})
		}
		if r.chance(0.7) {
			// a cut in the middle of the burst (addressed to a packet, so that it
			// fires inline while the other callers are running), then requests and
			// probes released at the very moment the next dial completes, i.e.
			// concurrently with SetClient / Connect of the next connection
			kindF := r.pick("cutAfter", "cutBefore", "cutAfter")
			sc.Faults = append(sc.Faults, Fault{Kind: kindF, Conn: conn, N: int(r.between(1, int64(n)+2)), Reset: r.chance(0.3)})
			sc.Faults = append(sc.Faults, Fault{Kind: "cutAt", Conn: conn, AtUs: t + 100}) // in case the packet never comes
			conn++
			for i := 0; i < int(r.between(1, 5)); i++ {
				op := request(0, false)
				op.OnDial = conn
				addOp(op)
			}
			// a handler registration racing with SetClient / Connect of the next connection
			addOp(Op{Kind: "handle", Handler: 1 + r.IntN(2), OnDial: conn})
			if r.chance(0.5) {
				addOp(Op{Kind: "probe", Repeat: int(r.between(1, 20)), OnDial: conn})
			}
		}
		t += 3000
	}
	sc.HorizonUs, sc.EndUs = t+3000, t+8000
	return sc
}

// genRaceManual: a bare RetryClient driven through Retryer while other
// goroutines publish, subscribe, probe and register handlers.
func genRaceManual(r *Rng, sc *Scenario) *Scenario {
	cfg := &sc.Cfg
	cfg.Client = "retry"
	cfg.InitIDs = spacedInitIDs(r, 8)
	cfg.DirectQoS0 = r.chance(0.3)
	actor := 10
	tok := 0
	t := int64(0)
	nconn := int(r.between(2, 4))
	for k := 1; k <= nconn; k++ {
		if k > 1 {
			sc.Ops = append(sc.Ops, Op{AtUs: t, Actor: -1, Kind: "close"})
		}
		// SetClient / Connect / Retry on one goroutine, everything else on others, same instant
		sc.Ops = append(sc.Ops, Op{AtUs: t, Actor: 0, Kind: "setclient"})
		sc.Ops = append(sc.Ops, Op{AtUs: t, Actor: 0, Kind: "rconnect"})
		sc.Ops = append(sc.Ops, Op{AtUs: t, Actor: 0, Kind: "afterconnect", Target: len(sc.Ops) - 1})
		for i := 0; i < int(r.between(2, 7)); i++ {
			actor++
			op := Op{AtUs: t, Actor: actor}
			switch r.weighted(5, 2, 2, 4, 1, 1) {
			case 0:
				tok++
				op.Kind, op.QoS, op.Topic, op.Token = "publish", byte(r.IntN(3)), "a", fmt.Sprintf("m%d", tok)
			case 1:
				op.Kind, op.Subs = "subscribe", []SubReq{{filters[r.IntN(len(filters))], byte(r.IntN(3))}}
			case 2:
				op.Kind, op.Topics = "unsubscribe", []string{filters[r.IntN(len(filters))]}
			case 3:
				op.Kind, op.Repeat = "probe", int(r.between(1, 40))
			case 4:
				op.Kind, op.Handler = "handle", 1+r.IntN(2)
			case 5:
				op.Kind = "retry"
			}
			if k == 1 && op.Kind == "probe" {
				op.AtUs = t + 50 // Client() is nil before the first SetClient
			}
			sc.Ops = append(sc.Ops, op)
		}
		if r.chance(0.5) {
			sc.Faults = append(sc.Faults, Fault{Kind: r.pick("cutAfter", "cutBefore"), Conn: k, N: int(r.between(1, 5))})
		}
		t += 2000
	}
	sc.HorizonUs, sc.EndUs = t+2000, t+6000
	return sc
}

// genRaceHeld: many requests wait for withheld acknowledgements; at one
// instant some callers are cancelled while the answers of others are released,
// so that abandoning callers and the reader goroutine run at the same time.
func genRaceHeld(r *Rng, sc *Scenario) *Scenario {
	cfg := &sc.Cfg
	cfg.Client = "base"
	cfg.HoldAcks = true
	cfg.InitIDs = []uint32{uint32(r.pickI(0, 0x7FFF, 0xFFF0))}
	sc.Ops = append(sc.Ops, Op{AtUs: 0, Actor: 1, Kind: "handle", Handler: 1})
	sc.Ops = append(sc.Ops, Op{AtUs: 1, Actor: 0, Kind: "connect"})
	t := int64(1000)
	held := 0
	for ph := 0; ph < int(r.between(1, 3)); ph++ {
		n := int(r.between(4, 12))
		first := len(sc.Ops)
		for i := 0; i < n; i++ {
			op := Op{AtUs: t, Actor: 100*ph + 10 + i}
			switch r.weighted(4, 4, 2, 2) {
			case 0:
				op.Kind, op.QoS, op.Topic, op.Token = "publish", 1, "a", fmt.Sprintf("h%d_%d", ph, i)
			case 1:
				op.Kind, op.QoS, op.Topic, op.Token = "publish", 2, "a", fmt.Sprintf("h%d_%d", ph, i)
			case 2:
				op.Kind, op.Subs = "subscribe", []SubReq{{fmt.Sprintf("f%d_%d", ph, i), byte(r.IntN(3))}}
			case 3:
				op.Kind, op.Topics = "unsubscribe", []string{fmt.Sprintf("f%d_%d", ph, i)}
			}
			sc.Ops = append(sc.Ops, op)
		}
		// one instant later: cancel some, answer the others
		t2 := t + 500
		for i := 0; i < n; i++ {
			if i%2 == 0 {
				sc.Ops = append(sc.Ops, Op{AtUs: t2, Actor: -1, Kind: "cancel", Target: first + i})
			} else {
				sc.Script = append(sc.Script, Out{Conn: 1, AtUs: t2, Kind: "release", Held: held + i})
			}
		}
		held += n
		// and the rest a little later (answers for abandoned requests included)
		for i := 0; i < n; i++ {
			sc.Script = append(sc.Script, Out{Conn: 1, AtUs: t2 + 300, Kind: "release", Held: held - n + i})
		}
		t += 2000
	}
	sc.HorizonUs, sc.EndUs = t+2000, t+4000
	return sc
}

// genRaceC17: Handle racing with SetClient / Connect of the next connection
// under real parallelism; a message that arrives at a later fake instant on that
// connection must reach the handler registered last.
func genRaceC17(r *Rng, sc *Scenario) *Scenario {
	cfg := &sc.Cfg
	cfg.Client = "reconnect"
	cfg.ReconnBaseUs, cfg.ReconnMaxUs = 200, 800
	cfg.InitIDs = spacedInitIDs(r, 12)
	sc.Ops = append(sc.Ops, Op{AtUs: 0, Actor: 1, Kind: "handle", Handler: 1})
	sc.Ops = append(sc.Ops, Op{AtUs: 1, Actor: 0, Kind: "connect"})
	t := int64(500)
	h := 1
	nconn := int(r.between(2, 5))
	for k := 1; k < nconn; k++ {
		// connection k is cut; while connection k+1 is being installed a new handler is registered
		sc.Faults = append(sc.Faults, Fault{Kind: "cutAt", Conn: k, AtUs: t, Reset: r.chance(0.3)})
		h++
		sc.Ops = append(sc.Ops, Op{Kind: "handle", Handler: h, Actor: 10 + k, OnDial: k + 1})
		if r.chance(0.5) {
			sc.Ops = append(sc.Ops, Op{Kind: "probe", Repeat: int(r.between(1, 10)), Actor: 30 + k, OnDial: k + 1})
		}
		t += cfg.ReconnBaseUs + 600
		q := byte(r.IntN(2))
		p := &Pkt{Type: TPublish, QoS: q, Topic: "a/x", Pay: fmt.Sprintf("in%d", k)}
		if q > 0 {
			p.ID = uint16(100 + k)
		}
		sc.Script = append(sc.Script, Out{Conn: k + 1, AtUs: t, Kind: "pkt", Pkt: p})
		t += 500
	}
	if r.chance(0.5) {
		// two application goroutines register a handler at the same instant on a
		// healthy connection; whichever registration wins, it is the same one on
		// this connection and on the next
		last := nconn
		t += 300
		sc.Ops = append(sc.Ops, Op{AtUs: t, Kind: "handle", Handler: 20, Actor: 50, SpinUs: r.between(0, 3)})
		sc.Ops = append(sc.Ops, Op{AtUs: t, Kind: "handle", Handler: 21, Actor: 51, SpinUs: r.between(0, 3)})
		t += 200
		sc.Script = append(sc.Script, Out{Conn: last, AtUs: t, Kind: "pkt", Pkt: &Pkt{Type: TPublish, QoS: 0, Topic: "a/x", Pay: "inA"}})
		t += 200
		sc.Faults = append(sc.Faults, Fault{Kind: "cutAt", Conn: last, AtUs: t})
		t += cfg.ReconnBaseUs + 600
		sc.Script = append(sc.Script, Out{Conn: last + 1, AtUs: t, Kind: "pkt", Pkt: &Pkt{Type: TPublish, QoS: 0, Topic: "a/x", Pay: "inB"}})
		t += 500
	}
	sc.HorizonUs, sc.EndUs = t+2000, t+4000
	return sc
}

// genRaceC16: several BaseClients, each with a connection of its own, whose
// endings race under real parallelism: Disconnect, local Close, peer EOF /
// reset and a malformed packet released at the same instant.
func genRaceC16(r *Rng, sc *Scenario) *Scenario {
	cfg := &sc.Cfg
	cfg.Client = "base"
	cfg.InitIDs = []uint32{0}
	n := int(r.between(3, 8))
	t := int64(0)
	for c := 0; c < n; c++ {
		sc.Ops = append(sc.Ops, Op{AtUs: t, Actor: 10 + c, Kind: "connect", Cli: c, Token: fmt.Sprintf("-%d", c)})
		t += 20
	}
	t += 400
	for c := 0; c < n; c++ {
		conn := c + 1
		// two or three endings at once
		ends := []string{"disconnect"}
		switch r.IntN(4) {
		case 0:
			ends = append(ends, "peereof")
		case 1:
			ends = append(ends, "peerreset")
		case 2:
			ends = append(ends, "localclose")
		case 3:
			ends = append(ends, "malformed")
		}
		if r.chance(0.3) {
			ends = append(ends, r.pick("peereof", "localclose"))
		}
		if r.chance(0.2) {
			ends = ends[1:] // without Disconnect: Closed must carry the error Err() keeps
			// ... and someone waiting on Done() finds that error
			sc.Ops = append(sc.Ops, Op{AtUs: t, Actor: 80 + c, Kind: "donewatch", Cli: c, Repeat: 20000})
		}
		for j, e := range ends {
			at := t
			// the application's action lands while the reader is on its way through
			// the end of the connection: some microseconds of real time later
			spin := int64(0)
			if r.chance(0.7) {
				spin = r.between(1, 60)
			}
			switch e {
			case "disconnect":
				sc.Ops = append(sc.Ops, Op{AtUs: at, Actor: 40 + c, Kind: "disconnect", Cli: c, SpinUs: spin})
			case "localclose":
				sc.Ops = append(sc.Ops, Op{AtUs: at, Actor: 60 + c*4 + j, Kind: "close", Cli: c, SpinUs: spin})
			case "peereof":
				sc.Faults = append(sc.Faults, Fault{Kind: "cutAt", Conn: conn, AtUs: at})
			case "peerreset":
				sc.Faults = append(sc.Faults, Fault{Kind: "cutAt", Conn: conn, AtUs: at, Reset: true})
			case "malformed":
				sc.Script = append(sc.Script, Out{Conn: conn, AtUs: at, Kind: "raw", RawHex: hx(0xf0, 0), Class: "malformed"})
			}
		}
		t += int64(r.between(0, 30))
	}
	sc.HorizonUs, sc.EndUs = t+2000, t+4000
	return sc
}
