package sim

import (
	"container/heap"
	"context"
	"fmt"
	"hash/fnv"
	"sort"
	"strings"
	"sync"
	"sync/atomic"
	"testing"
	"testing/synctest"
	"time"

	mqtt "github.com/at-wat/mqtt-go"
)

// Rec is one trace record. Every externally visible action of the library
// and every simulator action is logged as one Rec.
type Rec struct {
	Seq  uint64 `json:"seq"` // sequence number of the scheduler event being applied
	T    int64  `json:"t"`   // fake time, ns since start of run
	Kind string `json:"k"`
	Conn int    `json:"c,omitempty"`
	Op   int    `json:"op,omitempty"` // op index + 1 (0 = none)
	N    int    `json:"n,omitempty"`
	P    *Pkt   `json:"p,omitempty"`
	S    string `json:"s,omitempty"`
	Err  string `json:"err,omitempty"`
	Cls  string `json:"cls,omitempty"` // error classification (errors.Is against sentinels)
	B    bool   `json:"b,omitempty"`
	V    int64  `json:"v,omitempty"`
}

func (r *Rec) line() string {
	p := ""
	if r.P != nil {
		p = r.P.String()
	}
	return fmt.Sprintf("%s c%d op%d n%d %s s=%q err=%q cls=%s b=%v v=%d", r.Kind, r.Conn, r.Op, r.N, p, r.S, r.Err, r.Cls, r.B, r.V)
}

// Human renders a record for replay files.
func (r *Rec) Human() string {
	return fmt.Sprintf("[seq %d t=%s] %s", r.Seq, time.Duration(r.T), r.line())
}

type event struct {
	at   int64 // ns since start
	seq  uint64
	desc string
	fn   func()
}

type evHeap []*event

func (h evHeap) Len() int { return len(h) }
func (h evHeap) Less(i, j int) bool {
	if h[i].at != h[j].at {
		return h[i].at < h[j].at
	}
	return h[i].seq < h[j].seq
}
func (h evHeap) Swap(i, j int)       { h[i], h[j] = h[j], h[i] }
func (h *evHeap) Push(x interface{}) { *h = append(*h, x.(*event)) }
func (h *evHeap) Pop() interface{} {
	old := *h
	n := len(old)
	x := old[n-1]
	*h = old[:n-1]
	return x
}

// Result is what one run produced.
type Result struct {
	Trace      []Rec
	Hash       uint64
	Steps      int
	Events     int
	FakeNs     int64
	CapHit     string // non-empty if a cap stopped the run (inconclusive)
	Fired      map[string]int
	Probes     map[string]int
	Deferred   int
	Hang       bool
	HarnessErr string
}

// Sim is one simulated run.
type Sim struct {
	sc    *Scenario
	race  bool // engine R: free-running
	start time.Time

	mu     sync.Mutex // protects heap, trace, seqs, fired, probes
	hp     evHeap
	evSeq  uint64
	curSeq uint64
	trace  []Rec
	wake   chan struct{}
	fired  map[string]int
	probes map[string]int

	conns     []*Conn // by connection number-1 (nil if dial failed)
	dialCount int
	dials     map[int]*dialReq
	broker    *Broker

	faultsOff     atomic.Bool
	yieldActive   atomic.Int32
	connAckParked atomic.Int32 // Connect calls parked at the H3 site (they hold the connect mutex)
	extensions    int
	stepCap       int
	events        int
	steps         int
	capHit        string
	deferred      int
	sp            bool
	gate          chan struct{}

	// clients
	bases    []*mqtt.BaseClient // all BaseClients created (index = conn-1)
	retry    *mqtt.RetryClient
	reconn   mqtt.ReconnectClient
	actors   map[int]*actor
	opState  []*opState
	handlers map[int]mqtt.Handler
	lastSamp map[int]string
	initIDn  int

	bubbleDone       bool
	disconnectCalled bool
	ka               *kaState
	stalled          []*dialReq
	mux              mqtt.Handler
	manualConnects   int
	diagN            int
	reN              int
}

type opState struct {
	mu        sync.Mutex
	ctx       context.Context
	cancel    context.CancelFunc
	preCancel bool
	started   bool
	returned  bool
	deferred  int
	sp        bool
	gate      chan struct{}
	err       error
}

var curSim atomic.Pointer[Sim]

// heartbeat is bumped on every scheduler step (watched by the worker's
// real-time watchdog).
var heartbeat atomic.Int64

func init() {
	mqtt.SimInitID = func() (uint32, bool) {
		s := curSim.Load()
		if s == nil {
			return 0, false
		}
		return s.nextInitID()
	}
	mqtt.SimYield = func(site string) {
		s := curSim.Load()
		if s == nil {
			return
		}
		s.yield(site)
	}
}

func (s *Sim) nextInitID() (uint32, bool) {
	s.mu.Lock()
	defer s.mu.Unlock()
	ids := s.sc.Cfg.InitIDs
	if len(ids) == 0 {
		return 0, true // first id handed out is 1
	}
	v := ids[s.initIDn%len(ids)]
	s.initIDn++
	return v, true
}

func (s *Sim) yield(site string) {
	d, ok := s.sc.Cfg.Yields[site]
	if !ok || d <= 0 {
		return
	}
	s.probe("yield:" + site)
	s.log(Rec{Kind: "yield", S: site, V: d})
	s.yieldActive.Add(1)
	defer s.yieldActive.Add(-1)
	if site == "base.afterConnAck" {
		// parked inside Connect, which holds the client's connect mutex: no actor
		// may be released into a call on that client meanwhile (it would sit on a
		// sync.RWMutex, which is not a durable block), whatever the state callback
		// has reported in between
		s.connAckParked.Add(1)
		defer s.connAckParked.Add(-1)
	}
	if s.race {
		for i := int64(0); i < d%7+1; i++ {
			runtimeGosched()
		}
		return
	}
	// an odd sub-microsecond residue keeps the wake-up off the instants of
	// library timers (whole microseconds) and of scenario events
	time.Sleep(time.Duration(d)*time.Microsecond + time.Duration(333+7*(len(site)%40)))
}

func (s *Sim) nowNs() int64 { return int64(time.Since(s.start)) }

// raceKinds: the only records engine R keeps. They are all written on
// paths the library already serialises (inside Transport.Write, or on the
// scheduler goroutine), so that the simulator's own lock adds no
// happens-before edge between goroutines the library leaves unordered.
var raceKinds = map[string]bool{"tx": true, "txbad": true, "rx": true, "judge": true, "connstat": true, "teardown": true,
	"skipped": true, "cut": true, "rxlost": true, "lostb2c": true, "horizon": true, "subtable": true, "stats": true, "pending": true}

func (s *Sim) log(r Rec) {
	if s.race && !raceKinds[r.Kind] {
		// C17's engine R pass judges handler identity and needs the hand-overs and
		// the registrations (it is not looking for data races)
		c17 := s.sc.Prop == "C17" && (r.Kind == "hin" || r.Kind == "inv" || r.Kind == "ret" || r.Kind == "dialdone" || r.Kind == "close" || r.Kind == "write")
		// C16's engine R pass judges what the state callback and Err() say when
		// endings race with each other (same remark)
		c16 := s.sc.Prop == "C16" && (r.Kind == "state" || r.Kind == "inv" || r.Kind == "ret" || r.Kind == "cause" || r.Kind == "close" || r.Kind == "finalerr" || r.Kind == "dialdone" || r.Kind == "doneerrnil")
		if !c17 && !c16 {
			return
		}
	}
	s.mu.Lock()
	r.Seq = s.curSeq
	r.T = s.nowNs()
	s.trace = append(s.trace, r)
	s.mu.Unlock()
}

func (s *Sim) fire(kind string) {
	s.mu.Lock()
	s.fired[kind]++
	s.mu.Unlock()
}

func (s *Sim) probe(name string) {
	if s.race {
		return
	}
	s.mu.Lock()
	s.probes[name]++
	s.mu.Unlock()
}

// after schedules fn at now+d (ns). Safe from any goroutine of the bubble.
func (s *Sim) after(dNs int64, desc string, fn func()) {
	s.at(s.nowNs()+dNs, desc, fn)
}

func (s *Sim) at(tNs int64, desc string, fn func()) {
	s.mu.Lock()
	s.evSeq++
	heap.Push(&s.hp, &event{at: tNs, seq: s.evSeq, desc: desc, fn: fn})
	s.mu.Unlock()
	select {
	case s.wake <- struct{}{}:
	default:
	}
}

func us(v int64) int64 { return v * 1000 }

// faultsFor returns faults of a kind for connection k (only while faults are on).
func (s *Sim) faultAt(kind string, conn, n int) *Fault {
	if s.faultsOff.Load() {
		return nil
	}
	for i := range s.sc.Faults {
		f := &s.sc.Faults[i]
		if f.Kind == kind && f.Conn == conn && f.N == n {
			return f
		}
	}
	return nil
}

func (s *Sim) faultConn(kind string, conn int) *Fault {
	if s.faultsOff.Load() {
		return nil
	}
	for i := range s.sc.Faults {
		f := &s.sc.Faults[i]
		if f.Kind == kind && f.Conn == conn {
			return f
		}
	}
	return nil
}

// RunScenario executes one scenario inside a synctest bubble (engine S).
func RunScenario(t *testing.T, sc *Scenario) *Result {
	return runScenario(t, sc, false)
}

func runScenario(t *testing.T, sc *Scenario, race bool) *Result {
	res := &Result{}
	s := &Sim{sc: sc, race: race}
	func() {
		defer func() {
			if r := recover(); r != nil {
				msg := fmt.Sprint(r)
				if strings.Contains(msg, "blocked goroutines remain") || strings.Contains(msg, "deadlock: main bubble goroutine has exited") {
					res.Probes["leftover-goroutines-at-bubble-end"]++
					return
				}
				if !s.bubbleDone {
					res.HarnessErr = "panic in bubble: " + msg
				}
			}
		}()
		if race {
			// a race report fails the bubble's T and FailNow()s its parent: give it a
			// parent of its own so that the worker survives and can attribute it
			t.Run("r", func(t *testing.T) {
				defer func() {
					if r := recover(); r != nil {
						msg := fmt.Sprint(r)
						if !strings.Contains(msg, "blocked goroutines remain") && !s.bubbleDone {
							res.HarnessErr = "panic in bubble: " + msg
						}
					}
				}()
				synctest.Test(t, func(t *testing.T) {
					s.runRoot(res)
				})
			})
			return
		}
		synctest.Test(t, func(t *testing.T) {
			s.runRoot(res)
		})
	}()
	curSim.Store(nil)
	return res
}

func (s *Sim) runRoot(res *Result) {
	sc := s.sc
	s.start = time.Now()
	s.wake = make(chan struct{}, 1)
	s.fired = map[string]int{}
	s.probes = map[string]int{}
	s.dials = map[int]*dialReq{}
	s.actors = map[int]*actor{}
	s.handlers = map[int]mqtt.Handler{}
	s.lastSamp = map[int]string{}
	s.broker = newBroker(s)
	s.stepCap = 6000
	if sc.Family == "idcycle" {
		s.stepCap = 600000
	}
	res.Fired = s.fired
	res.Probes = s.probes
	curSim.Store(s)

	s.setupClients()

	// schedule scenario events; unique sub-microsecond residues keep scenario
	// events and library timers (whole microseconds) off the same instant.
	idx := 0
	resid := func() int64 {
		if s.race {
			return 0 // engine R: events of one microsecond are applied back to back, so that what they wake runs concurrently
		}
		idx++
		return int64(1 + idx%997)
	}
	// engine R, C16 pass: faults and scripted packets addressed to an instant
	// fire when the gate of that instant opens, so that what they set off runs
	// concurrently with the callers released there
	withGate := int64(0)
	if s.race && sc.Prop == "C16" {
		withGate = 998
	}
	gates := map[int64]chan struct{}{}
	for i := range sc.Ops {
		i := i
		s.opState = append(s.opState, &opState{})
		if s.race && sc.Ops[i].OnDial == 0 && sc.Ops[i].Actor >= 0 {
			// engine R: all ops of one instant start together, behind a gate that
			// opens once every one of them has its goroutine
			g := gates[sc.Ops[i].AtUs]
			if g == nil {
				g = make(chan struct{})
				gates[sc.Ops[i].AtUs] = g
			}
			s.opState[i].gate = g
		}
		if sc.Ops[i].OnDial > 0 {
			continue // released by the dialer
		}
		s.at(us(sc.Ops[i].AtUs)+resid(), "op", func() { s.releaseOp(i) })
	}
	for i := range sc.Faults {
		f := sc.Faults[i]
		switch f.Kind {
		case "cutAt":
			s.at(us(f.AtUs)+resid()+withGate, "cutAt", func() {
				if s.faultsOff.Load() {
					return
				}
				if c := s.conn(f.Conn); c != nil && c.alive() {
					s.fire("cutAt")
					c.cut(f.Reset, "cutAt")
				}
			})
		case "silentFrom":
			s.at(us(f.AtUs)+resid(), "silentFrom", func() {
				if s.faultsOff.Load() {
					return
				}
				if c := s.conn(f.Conn); c != nil && c.alive() {
					s.fire("silentFrom")
					c.setSilent()
				}
			})
		}
	}
	for i := range sc.Script {
		o := sc.Script[i]
		if o.AfterConnack {
			continue // triggered by the broker
		}
		i := i
		s.at(us(o.AtUs)+resid()+withGate, "script", func() { s.runScript(i) })
	}
	for at, g := range gates {
		g := g
		s.at(us(at)+998, "gate", func() { close(g) })
	}
	s.at(us(sc.HorizonUs)+resid(), "horizon", func() {
		s.faultsOff.Store(true)
		s.log(Rec{Kind: "horizon"})
		// a connection that was told to stay silent for ever would contradict
		// "the broker eventually stays reachable": silence ends at the horizon
		s.mu.Lock()
		conns := append([]*Conn{}, s.conns...)
		stalled := s.stalled
		s.stalled = nil
		s.mu.Unlock()
		for _, c := range conns {
			if c != nil {
				c.endSilence()
			}
		}
		// a dial that hangs for ever would contradict it as well
		for _, rq := range stalled {
			select {
			case rq.ch <- ErrSimDial:
			default:
			}
		}
	})
	endNs := us(sc.EndUs) + resid()
	ended := false
	settle := us(sc.EndUs - sc.HorizonUs)
	if settle < us(1000) {
		settle = us(1000)
	}
	var endFn func()
	endFn = func() {
		// quiescent-complete means that nothing more will happen: while requests
		// are still queued or a goroutine is parked at a buggify site the judgement
		// is postponed by another settle period (a bounded number of times - a
		// client that is really stuck is judged in the end)
		busy := s.yieldActive.Load() > 0
		if !busy && s.retry != nil && !s.race {
			st := s.retry.Stats()
			busy = st.QueuedTasks > 0
		}
		if busy && s.extensions < 8 {
			s.extensions++
			s.log(Rec{Kind: "extend", V: int64(s.extensions)})
			s.after(settle, "end", endFn)
			return
		}
		ended = true
	}
	s.at(endNs, "end", endFn)

	s.extraSetup()

	if s.race {
		s.runRaceLoop(&ended)
		s.log(Rec{Kind: "judge"})
		s.judgeSnapshot()
		s.teardown()
		time.Sleep(time.Millisecond)
		res.Trace = s.snapshotTrace()
		res.Steps = s.steps
		res.Events = s.events
		res.FakeNs = s.nowNs()
		res.Hash = TraceHash(res.Trace)
		s.bubbleDone = true
		return
	}
	// scheduler loop
	for !ended {
		synctest.Wait()
		s.steps++
		heartbeat.Add(1)
		s.sampleAll()
		if s.steps > s.stepCap {
			s.capHit = "step-cap"
			break
		}
		s.mu.Lock()
		if s.hp.Len() == 0 {
			s.mu.Unlock()
			break
		}
		ev := s.hp[0]
		now := s.nowNs()
		if ev.at > now {
			s.mu.Unlock()
			tm := time.NewTimer(time.Duration(ev.at - now))
			select {
			case <-tm.C:
			case <-s.wake:
				tm.Stop()
			}
			continue
		}
		heap.Pop(&s.hp)
		s.curSeq = ev.seq
		s.mu.Unlock()
		// drain a stale wake token
		select {
		case <-s.wake:
		default:
		}
		s.events++
		ev.fn()
	}
	synctest.Wait()
	s.sampleAll()
	s.log(Rec{Kind: "judge"})
	s.judgeSnapshot()
	s.teardown()
	synctest.Wait()
	s.census()

	res.Trace = s.trace
	res.Steps = s.steps
	res.Events = s.events
	res.FakeNs = s.nowNs()
	res.CapHit = s.capHit
	res.Deferred = s.deferred
	res.Hash = TraceHash(s.trace)
	s.bubbleDone = true
}

func (s *Sim) conn(k int) *Conn {
	s.mu.Lock()
	defer s.mu.Unlock()
	if k < 1 || k > len(s.conns) {
		return nil
	}
	return s.conns[k-1]
}

// newConn creates connection number k (must be len(conns)+1 or fill a gap).
func (s *Sim) newConn(k int) *Conn {
	for len(s.conns) < k {
		s.conns = append(s.conns, nil)
	}
	c := &Conn{s: s, k: k, dropped: map[int]bool{}}
	c.cond = sync.NewCond(&c.mu)
	s.conns[k-1] = c
	if s.sc.Cfg.EarlyConnAck {
		// a peer that greets with an accepting CONNACK before it has read
		// anything: the bytes are readable the moment the reader starts
		c.rbuf = append(c.rbuf, EncodeB2C(&Pkt{Type: TConnAck})...)
	}
	return c
}

// TraceHash hashes the canonical trace: records grouped per step
// (Seq, T), sorted inside a step.
func TraceHash(tr []Rec) uint64 {
	h := fnv.New64a()
	i := 0
	var lines []string
	for i < len(tr) {
		j := i
		lines = lines[:0]
		for j < len(tr) && tr[j].Seq == tr[i].Seq && tr[j].T == tr[i].T {
			lines = append(lines, tr[j].line())
			j++
		}
		sort.Strings(lines)
		fmt.Fprintf(h, "#%d@%d\n", tr[i].Seq, tr[i].T)
		for _, l := range lines {
			h.Write([]byte(l))
			h.Write([]byte{'\n'})
		}
		i = j
	}
	return h.Sum64()
}

// runRaceLoop (engine R): timed scenario events are applied at their fake
// time, everything else runs freely: actors of one instant start together,
// the broker reacts inline, nothing waits for quiescence.
func (s *Sim) runRaceLoop(ended *bool) {
	for !*ended {
		s.mu.Lock()
		if s.hp.Len() == 0 {
			s.mu.Unlock()
			return
		}
		ev := s.hp[0]
		now := s.nowNs()
		if ev.at > now {
			s.mu.Unlock()
			tm := time.NewTimer(time.Duration(ev.at - now))
			select {
			case <-tm.C:
			case <-s.wake:
				tm.Stop()
			}
			continue
		}
		heap.Pop(&s.hp)
		s.curSeq = ev.seq
		s.mu.Unlock()
		select {
		case <-s.wake:
		default:
		}
		s.events++
		heartbeat.Add(1)
		ev.fn()
	}
}

func (s *Sim) snapshotTrace() []Rec {
	s.mu.Lock()
	defer s.mu.Unlock()
	return append([]Rec{}, s.trace...)
}
