package sim

import (
	"encoding/hex"
	"fmt"
)

func baseCfg(r *Rng) Config {
	cfg := Config{Client: "base", ClientID: "cid"}
	cfg.LatC2BUs = r.between(20, 200)
	cfg.LatB2CUs = r.between(20, 200)
	cfg.DialLatUs = 10
	cfg.BrokerMethod = "A"
	switch r.IntN(5) {
	case 0:
		cfg.InitIDs = []uint32{0xFFFD, 0x1FFFD, 7}
	case 1:
		cfg.InitIDs = []uint32{0xFFFE, 0x10000}
	case 2:
		cfg.InitIDs = []uint32{0x7FFF, 0xFFFF}
	case 3:
		cfg.InitIDs = []uint32{uint32(r.IntN(0x10000))}
	default:
		cfg.InitIDs = []uint32{0}
	}
	cfg.StateCBReenters = r.chance(0.2)
	cfg.CloseErr = r.chance(0.15)
	return cfg
}

// nextID mirrors nothing of the implementation: it is the specification of a
// 16-bit non-zero identifier counter, used only to aim forged acks.
func nextID(cur uint32) (uint32, uint16) {
	for {
		cur++
		if uint16(cur) != 0 {
			return cur, uint16(cur)
		}
	}
}

func genBase(r *Rng, prop string) *Scenario {
	switch prop {
	case "C04":
		return genC04(r)
	case "C06":
		if r.chance(0.08) {
			// well-formed traffic through a ServeMux with multi-level filters:
			// "never panics" also covers what the reader goroutine calls
			return genC20(r)
		}
		if r.chance(0.002) {
			return genC06Stalled(r) // rare: with a client that deadlocks here every such run costs a watchdog period
		}
		return genC06(r)
	case "C07":
		return genC07(r)
	case "C11", "C16":
		if prop == "C11" && r.matrixCell < 0 && r.chance(0.12) {
			// chains of ErrorWithRetry handles, each used with a context of its own
			// on a fresh (or the same) client and interrupted in its turn
			return genC12Base(r)
		}
		if prop == "C16" && r.chance(0.2) {
			// connections ended by the reader's own failures (an acknowledgement
			// that cannot be written) rather than by the network
			sc := genC04(r)
			sc.Cfg.SlowHandlerUs = 0 // C16's closed rule is timed to the end of the link
			return sc
		}
		return genC11(r, prop)
	case "C19":
		switch r.IntN(10) {
		case 0, 1, 2, 3:
			return genC12Base(r)
		case 4:
			return genC19Validation(r)
		}
		return genC11(r, prop)
	case "C12":
		return genC12Base(r)
	case "C15":
		return genC15(r)
	case "C20":
		return genC20(r)
	case "C10":
		switch r.IntN(4) {
		case 0:
			return genC04(r)
		case 1:
			return genC07(r)
		case 2:
			return genC15(r)
		}
		return genC11(r, "C10")
	}
	return genC07(r)
}

// rtt returns a time (us) safely after the CONNACK of a connect issued at 0.
func rtt(cfg *Config) int64 { return cfg.LatC2BUs + cfg.LatB2CUs + 50 }

// ---------------------------------------------------------------- C04

func genC04(r *Rng) *Scenario {
	sc := &Scenario{Cfg: baseCfg(r)}
	cfg := &sc.Cfg
	if r.chance(0.5) {
		cfg.Frag = []int{int(r.between(1, 4)), int(r.between(1, 9))}
	}
	if r.chance(0.3) {
		cfg.SlowHandlerUs = r.between(10, 600)
	}
	if r.chance(0.2) {
		// the limit on what the application may publish says nothing about what
		// the broker may deliver: inbound payloads at and above it
		cfg.MaxPayloadLen = int(r.between(1, 4))
	}
	hasHandler := r.chance(0.8)
	if hasHandler {
		h := 1
		if r.chance(0.25) {
			h = 3 // a handler that publishes through the client it was called by
		} else if r.chance(0.25) {
			h = 4 // a handler that rewrites the message it was given (it owns it)
		}
		sc.Ops = append(sc.Ops, Op{AtUs: 0, Actor: 1, Kind: "handle", Handler: h})
	}
	emptyUsed, bigUsed := false, false
	sc.Ops = append(sc.Ops, Op{AtUs: 1, Actor: 0, Kind: "connect"})
	t := rtt(cfg) + 10
	n := int(r.between(1, 10))
	// the handler is replaced (or removed, or registered for the first time) on
	// the live connection, in a gap of the arrival sequence
	changeAt := -1
	if r.chance(0.4) {
		changeAt = r.IntN(n + 1)
	}
	change := func() {
		t += 600
		h := 2
		if cfg.SlowHandlerUs == 0 && r.chance(0.3) {
			h = 0
		}
		sc.Ops = append(sc.Ops, Op{AtUs: t + cfg.LatB2CUs, Actor: 1, Kind: "handle", Handler: h})
		t += 600
	}
	for i := 0; i < n; i++ {
		if i == changeAt {
			change()
		}
		if r.chance(0.6) {
			t += r.between(0, 400)
		}
		id := uint16(r.between(1, 3))
		o := Out{Conn: 1, AtUs: t, Kind: "pkt"}
		tok := fmt.Sprintf("in%d", i)
		topics := topics
		if r.chance(0.2) {
			topics = []string{"caf\u00e9/x", "\u65e5\u672c/\u8a9e", "\U0001F600", "a/\u00e9"} // multi-byte UTF-8
		}
		switch r.weighted(3, 3, 4, 4) {
		case 0:
			o.Pkt = &Pkt{Type: TPublish, QoS: 0, Topic: topics[r.IntN(len(topics))], Pay: tok, Retain: r.chance(0.2)}
		case 1:
			o.Pkt = &Pkt{Type: TPublish, QoS: 1, ID: id, Dup: r.chance(0.3), Topic: topics[r.IntN(len(topics))], Pay: tok}
		case 2:
			o.Pkt = &Pkt{Type: TPublish, QoS: 2, ID: id, Dup: r.chance(0.3), Topic: topics[r.IntN(len(topics))], Pay: tok, Retain: r.chance(0.2)}
		case 3:
			o.Pkt = &Pkt{Type: TPubRel, ID: id}
			if r.chance(0.15) {
				o.Pkt.ID = uint16(r.between(4, 9)) // unknown id
			}
		}
		if o.Pkt.Type == TPublish && !bigUsed && r.chance(0.004) {
			// a payload that needs a four-byte remaining length (2 MiB and more)
			o.Pkt.Pay = fmt.Sprintf("%s~%d", tok, 2097152+r.IntN(70000))
			bigUsed = true
			cfg.Frag = nil
		}
		if o.Pkt.Type == TPublish && !emptyUsed && r.chance(0.1) {
			o.Pkt.Pay = "" // a legal zero-length payload (one per run: it is its own identity)
			emptyUsed = true
		}
		sc.Script = append(sc.Script, o)
	}
	if changeAt == n {
		change()
	}
	if r.chance(0.15) {
		sc.Faults = append(sc.Faults, Fault{Kind: "writeErr", Conn: 1, N: int(r.between(1, int64(n))), Prefix: int(r.between(0, 3))})
	}
	sc.HorizonUs = t + 20000 + cfg.SlowHandlerUs*int64(n)
	sc.EndUs = sc.HorizonUs + 5000
	return sc
}

// ---------------------------------------------------------------- C06

func hx(b ...byte) string { return hex.EncodeToString(b) }

func genC06(r *Rng) *Scenario {
	sc := &Scenario{Cfg: baseCfg(r)}
	cfg := &sc.Cfg
	cfg.HoldAcks = true
	switch r.IntN(3) {
	case 0:
		cfg.Frag = []int{1}
	case 1:
		cfg.Frag = []int{int(r.between(1, 3)), int(r.between(1, 7))}
	}
	if r.chance(0.85) {
		sc.Ops = append(sc.Ops, Op{AtUs: 0, Actor: 1, Kind: "handle", Handler: 1})
	} // else: a client that never registered a handler (publish-only use)
	sc.Ops = append(sc.Ops, Op{AtUs: 1, Actor: 0, Kind: "connect"})
	t := rtt(cfg) + 10
	// a blocked call whose acknowledgement is among the well-formed prefix
	nblocked := int(r.between(0, 2))
	for i := 0; i < nblocked; i++ {
		sc.Ops = append(sc.Ops, Op{AtUs: t, Actor: 2 + i, Kind: "publish", QoS: 1, Topic: "a", Token: fmt.Sprintf("m%d", i)})
		t += 5
	}
	// ... or a blocked Subscribe that is answered by a SUBACK with its own
	// identifier and the wrong number of return codes
	subID, subN := uint16(0), 0
	if r.chance(0.12) {
		cur := cfg.InitIDs[0]
		for i := 0; i <= nblocked; i++ {
			cur, subID = nextID(cur)
		}
		subN = int(r.between(1, 3))
		op := Op{AtUs: t, Actor: 5, Kind: "subscribe"}
		for j := 0; j < subN; j++ {
			op.Subs = append(op.Subs, SubReq{filters[j%len(filters)], byte(r.IntN(3))})
		}
		sc.Ops = append(sc.Ops, op)
		t += 5
	}
	t += cfg.LatC2BUs + 20
	// ... or a Ping given up by its caller before any answer can arrive; the
	// answer (and one more PINGRESP for good measure) comes later, when nobody
	// waits for one any more
	strayPings := 0
	if nblocked == 0 && subN == 0 && r.chance(0.12) {
		sc.Ops = append(sc.Ops, Op{AtUs: t, Actor: 6, Kind: "ping", CtxTimeoutUs: r.between(1, 15)})
		strayPings = int(r.between(1, 2))
		t += 30
	}
	npre := int(r.between(0, 6))
	rel := 0
	var lateRel []uint16
	for i := 0; i < npre; i++ {
		t += r.between(0, 200)
		if rel < nblocked && r.chance(0.5) {
			sc.Script = append(sc.Script, Out{Conn: 1, AtUs: t, Kind: "release", Held: rel})
			rel++
			continue
		}
		q := byte(r.IntN(2))
		p := &Pkt{Type: TPublish, QoS: q, Topic: topics[r.IntN(len(topics))], Pay: fmt.Sprintf("in%d", i)}
		if q > 0 {
			p.ID = uint16(10 + i)
		}
		if r.chance(0.2) {
			// a complete inbound QoS 2 exchange (PUBLISH, then its PUBREL)
			p.QoS, p.ID = 2, uint16(10+i)
			sc.Script = append(sc.Script, Out{Conn: 1, AtUs: t, Kind: "pkt", Pkt: p, Class: "wellformed-q2"})
			if r.chance(0.5) {
				// released only after the rest of the prefix: the client holds the
				// message while other packets arrive
				lateRel = append(lateRel, p.ID)
				continue
			}
			t += r.between(1, 200)
			sc.Script = append(sc.Script, Out{Conn: 1, AtUs: t, Kind: "pkt", Pkt: &Pkt{Type: TPubRel, ID: p.ID}, Class: "wellformed-q2"})
			if r.chance(0.3) {
				// the broker repeats its PUBREL (it has not seen the PUBCOMP yet)
				t += r.between(1, 100)
				sc.Script = append(sc.Script, Out{Conn: 1, AtUs: t, Kind: "pkt", Pkt: &Pkt{Type: TPubRel, ID: p.ID}, Class: "wellformed-q2"})
			}
			continue
		}
		sc.Script = append(sc.Script, Out{Conn: 1, AtUs: t, Kind: "pkt", Pkt: p, Class: "wellformed"})
	}
	for _, id := range lateRel {
		t += r.between(1, 200)
		sc.Script = append(sc.Script, Out{Conn: 1, AtUs: t, Kind: "pkt", Pkt: &Pkt{Type: TPubRel, ID: id}, Class: "wellformed-q2"})
		if r.chance(0.3) {
			t += r.between(1, 100)
			sc.Script = append(sc.Script, Out{Conn: 1, AtUs: t, Kind: "pkt", Pkt: &Pkt{Type: TPubRel, ID: id}, Class: "wellformed-q2"})
		}
	}
	for i := 0; i < strayPings; i++ {
		t += r.between(1, 200)
		sc.Script = append(sc.Script, Out{Conn: 1, AtUs: t, Kind: "pkt", Pkt: &Pkt{Type: TPingResp}, Class: "wellformed"})
	}
	t += r.between(1, 300)
	o := Out{Conn: 1, AtUs: t, Kind: "raw"}
	good := EncodeB2C(&Pkt{Type: TPublish, QoS: 1, ID: 9, Topic: "a/x", Pay: "victim"})
	cls := r.IntN(15)
	if cls == 12 && !r.chance(0.08) {
		cls = 3 // the 256 MB allocation is legal but slow: keep it rare
	}
	if subN > 0 {
		cls = 15
	}
	switch cls {
	case 15: // gray: SUBACK for the pending SUBSCRIBE with too many / too few return codes
		k := subN + int(r.between(1, 3))
		if r.chance(0.3) {
			k = subN - 1
		}
		codes := make([]byte, k)
		for i := range codes {
			codes[i] = []byte{0, 1, 2, 0x80}[r.IntN(4)]
		}
		o.RawHex, o.Class = hex.EncodeToString(EncodeB2C(&Pkt{Type: TSubAck, ID: subID, Codes: codes})), "gray-suback-count"
	case 0: // truncation at any byte, then EOF
		var pk []byte
		switch r.IntN(4) {
		case 0:
			pk = good
		case 1:
			pk = EncodeB2C(&Pkt{Type: TPubAck, ID: 3})
		case 2:
			pk = EncodeB2C(&Pkt{Type: TSubAck, ID: 3, Codes: []byte{0, 1}})
		default:
			pk = EncodeB2C(&Pkt{Type: TConnAck})
		}
		cut := int(r.between(1, int64(len(pk)-1)))
		o.RawHex, o.Class, o.EOFAfter = hex.EncodeToString(pk[:cut]), "trunc", true
	case 1: // over-long length field (5..10 continuation bytes)
		n := int(r.between(4, 9))
		b := []byte{0x30}
		for i := 0; i < n; i++ {
			b = append(b, 0x80|byte(r.IntN(128)))
		}
		b = append(b, byte(r.IntN(128)), 0, 1, 'a')
		o.RawHex, o.Class, o.EOFAfter = hex.EncodeToString(b), "len-overlong", true
	case 2: // non-terminating length field
		b := []byte{0x30}
		for i := 0; i < int(r.between(12, 40)); i++ {
			b = append(b, 0xff)
		}
		o.RawHex, o.Class, o.EOFAfter = hex.EncodeToString(b), "len-nonterminating", true
	case 3: // length larger than what follows, then EOF
		b := []byte{0x30}
		b = append(b, EncodeRemLen(int(r.pickI(200, 20000, 3000000, 2097152, 16384)))...)
		b = append(b, 0, 1, 'a', 'x')
		o.RawHex, o.Class, o.EOFAfter = hex.EncodeToString(b), "len-beyond-data", true
	case 4: // illegal fixed header flags
		ty := []byte{0x20, 0x40, 0x50, 0x60, 0x70, 0x90, 0xb0, 0xd0}[r.IntN(8)]
		fl := byte(r.between(1, 15))
		if ty == 0x60 {
			for fl == 2 {
				fl = byte(r.between(0, 15))
			}
		}
		body := []byte{0, 5}
		if ty == 0x90 {
			body = []byte{0, 5, 0}
		}
		if ty == 0xd0 {
			body = nil
		}
		o.RawHex, o.Class = hex.EncodeToString(frame(ty|fl, body)), "illegal-flags"
	case 5: // PUBLISH QoS 3
		b := frame(0x36|byte(r.IntN(2))|byte(r.IntN(2))<<3, append(putStr(nil, "a"), 0, 9, 'x'))
		o.RawHex, o.Class = hex.EncodeToString(b), "qos3"
	case 6: // packet types a broker never sends
		ty := []byte{0x00, 0x10, 0x80, 0xa0, 0xc0, 0xe0, 0xf0}[r.IntN(7)]
		body := []byte{0, 1}
		if r.chance(0.5) {
			body = nil
		}
		o.RawHex, o.Class = hex.EncodeToString(frame(ty|byte(r.IntN(2))<<1, body)), "unknown-type"
	case 7: // bodies shorter than their fixed fields
		ty := []byte{0x20, 0x40, 0x50, 0x62, 0x70, 0x90, 0xb0}[r.IntN(7)]
		body := []byte{}
		if r.chance(0.5) {
			body = []byte{0}
		}
		o.RawHex, o.Class = hex.EncodeToString(frame(ty, body)), "short-body"
	case 8: // topic length beyond the body
		hi, lo := byte(0), byte(r.between(3, 200))
		if r.chance(0.4) {
			// boundary values of the 16-bit length field
			v := []uint16{0xFFFF, 0xFFFE, 0xFFFD, 0x8000, 0x7FFF, 0x0100, 0xFF00}[r.IntN(7)]
			hi, lo = byte(v>>8), byte(v)
		}
		tail := []byte{'a'}
		if r.chance(0.3) {
			tail = []byte{'a', 'b', 'c', 'd'}[:r.IntN(5)]
		}
		if int(hi)<<8|int(lo) <= len(tail) {
			tail = tail[:0] // the announced length must exceed what follows
			if hi == 0 && lo == 0 {
				lo = 1
			}
		}
		b := frame(0x30, append([]byte{hi, lo}, tail...))
		o.RawHex, o.Class = hex.EncodeToString(b), "topic-beyond-body"
	case 9: // QoS>0 without room for the identifier
		body := putStr(nil, "a")
		if r.chance(0.5) {
			body = append(body, 0)
		}
		o.RawHex, o.Class = hex.EncodeToString(frame(0x32+byte(r.IntN(2))*2, body)), "no-room-for-id"
	case 10: // U+0000 in topic
		topic := []string{"a\x00b", "\x00", "a\x00", "\u00e9\x00", "a\u00e9\x00b", "\u20ac\x00", "\U0001F600\x00x", "\u00e9\u00e9\x00"}[r.IntN(8)]
		body := append(putStr(nil, topic), 'x')
		o.RawHex, o.Class = hex.EncodeToString(frame(0x30, body)), "nul-in-topic"
	case 11: // random bit flips in a well-formed packet: gray unless it crashes
		pk := append([]byte{}, good...)
		for i := 0; i < int(r.between(1, 3)); i++ {
			pk[r.IntN(len(pk))] ^= 1 << r.IntN(8)
		}
		o.RawHex, o.Class, o.EOFAfter = hex.EncodeToString(pk), "gray-bitflip", true
	case 12: // maximum legal length announced, a few bytes, then EOF: legal allocation
		b := []byte{0x30}
		b = append(b, EncodeRemLen(268435455)...)
		b = append(b, 0, 1, 'a')
		o.RawHex, o.Class, o.EOFAfter = hex.EncodeToString(b), "len-max-then-eof", true
	case 14: // gray: ill-formed UTF-8 in the topic, short payload (only panic/alloc apply)
		topic := []byte{'a', 0xff, 'b'}
		switch r.IntN(4) {
		case 0:
			topic = []byte{0xff}
		case 1:
			topic = []byte{0xc3, 0x28, 0xa0, 0xa1}
		case 2:
			topic = []byte{0xed, 0xa0, 0x80} // encoded surrogate
		}
		q := byte(r.IntN(3))
		body := putU16(nil, uint16(len(topic)))
		body = append(body, topic...)
		if q > 0 {
			body = putU16(body, 9)
		}
		for i := 0; i < r.IntN(3); i++ {
			body = append(body, 'x')
		}
		o.RawHex, o.Class = hex.EncodeToString(frame(0x30|q<<1, body)), "gray-invalid-utf8"
	case 13: // gray: trailing bytes / reserved bits / odd return codes
		switch r.IntN(4) {
		case 0:
			o.RawHex = hx(0x40, 3, 0, 5, 9)
		case 1:
			o.RawHex = hx(0x20, 2, 0xfe, 0)
		case 2:
			o.RawHex = hx(0x90, 3, 0, 5, 3)
		default:
			o.RawHex = hx(0xd0, 1, 0)
		}
		o.Class = "gray-lenient"
	}
	if r.chance(0.15) {
		// the malformed packet arrives instead of the CONNACK
		sc.Faults = append(sc.Faults, Fault{Kind: "connackNever", Conn: 1})
		sc.Script = nil
		var ops []Op
		for _, op := range sc.Ops {
			if op.Kind == "connect" || op.Kind == "handle" {
				ops = append(ops, op)
			}
		}
		sc.Ops = ops
		o.AtUs = cfg.LatC2BUs + 30
	}
	sc.Script = append(sc.Script, o)
	sc.HorizonUs = t + 20000
	sc.EndUs = sc.HorizonUs + 2000
	return sc
}

// genC06Stalled: the broker stops reading, so one application goroutine is
// blocked inside Transport.Write (holding the client's write lock) when the
// malformed packet arrives. Nothing else writes meanwhile: the inbound prefix
// needs no acknowledgement.
func genC06Stalled(r *Rng) *Scenario {
	sc := &Scenario{Cfg: baseCfg(r)}
	cfg := &sc.Cfg
	cfg.StateCBReenters = false
	sc.Ops = append(sc.Ops, Op{AtUs: 0, Actor: 1, Kind: "handle", Handler: 1})
	sc.Ops = append(sc.Ops, Op{AtUs: 1, Actor: 0, Kind: "connect"})
	t := rtt(cfg) + 10
	sc.Ops = append(sc.Ops, Op{AtUs: t, Actor: 2, Kind: "publish", QoS: byte(r.IntN(3)), Topic: "a", Token: "m0"})
	sc.Faults = append(sc.Faults, Fault{Kind: "writeStall", Conn: 1, N: 1})
	t += 200
	for i := 0; i < int(r.between(0, 3)); i++ {
		t += r.between(0, 100)
		sc.Script = append(sc.Script, Out{Conn: 1, AtUs: t, Kind: "pkt", Pkt: &Pkt{Type: TPublish, QoS: 0, Topic: topics[r.IntN(len(topics))], Pay: fmt.Sprintf("in%d", i)}, Class: "wellformed"})
	}
	t += r.between(1, 300)
	o := Out{Conn: 1, AtUs: t, Kind: "raw"}
	switch r.IntN(3) {
	case 0:
		o.RawHex, o.Class = hex.EncodeToString(frame(0x36, append(putStr(nil, "a"), 0, 9, 'x'))), "qos3"
	case 1:
		o.RawHex, o.Class = hex.EncodeToString(frame(0xf0, nil)), "unknown-type"
	default:
		o.RawHex, o.Class = hex.EncodeToString(frame(0x40, []byte{0})), "short-body"
	}
	sc.Script = append(sc.Script, o)
	sc.HorizonUs = t + 20000
	sc.EndUs = sc.HorizonUs + 2000
	return sc
}

// ---------------------------------------------------------------- C07

// genC07Early: one caller, one request at a time, and a peer so fast that its
// answer is readable before Transport.Write returns.
func genC07Early(r *Rng) *Scenario {
	sc := &Scenario{Cfg: baseCfg(r)}
	cfg := &sc.Cfg
	cfg.EarlyReply = true
	sc.Ops = append(sc.Ops, Op{AtUs: 0, Actor: 0, Kind: "connect"})
	t := int64(500)
	for i := 0; i < int(r.between(1, 8)); i++ {
		t += r.between(1, 200)
		op := Op{AtUs: t, Actor: 1}
		switch r.weighted(3, 4, 2, 2, 1) {
		case 0:
			op.Kind, op.QoS, op.Topic, op.Token = "publish", 1, "a", fmt.Sprintf("m%d", i)
		case 1:
			op.Kind, op.QoS, op.Topic, op.Token = "publish", 2, "b", fmt.Sprintf("m%d", i)
		case 2:
			op.Kind, op.Subs = "subscribe", []SubReq{{fmt.Sprintf("f%d", i), byte(r.IntN(3))}}
		case 3:
			op.Kind, op.Topics = "unsubscribe", []string{fmt.Sprintf("f%d", i)}
		case 4:
			op.Kind = "ping"
		}
		sc.Ops = append(sc.Ops, op)
	}
	sc.HorizonUs = t + 5000
	sc.EndUs = sc.HorizonUs + 2000
	return sc
}

// genC07Stale: acknowledgements that arrive before the request they would
// belong to exists. After a first wave of requests has been answered (so that
// whatever the client keeps per kind of request exists), the broker sends
// acknowledgements carrying the identifiers the NEXT requests will get; those
// requests are then made and answered late. Nothing the broker said earlier
// may complete them.
func genC07Stale(r *Rng) *Scenario {
	sc := &Scenario{Cfg: baseCfg(r)}
	cfg := &sc.Cfg
	cfg.HoldAcks = true
	sc.Ops = append(sc.Ops, Op{AtUs: 0, Actor: 0, Kind: "connect"})
	t := rtt(cfg) + 10
	cur := cfg.InitIDs[0]
	actor := 1
	held := 0
	mk := func(i int, wave string) Op {
		op := Op{AtUs: t, Actor: actor}
		actor++
		switch r.IntN(3) {
		case 0:
			op.Kind, op.QoS, op.Topic, op.Token = "publish", 1, "a", fmt.Sprintf("%s%d", wave, i)
		case 1:
			op.Kind, op.Subs = "subscribe", []SubReq{{filters[i%len(filters)], byte(r.IntN(3))}}
		default:
			op.Kind, op.Topics = "unsubscribe", []string{filters[i%len(filters)]}
		}
		return op
	}
	n1 := int(r.between(1, 3))
	for i := 0; i < n1; i++ {
		t += r.between(1, 50)
		sc.Ops = append(sc.Ops, mk(i, "m"))
		cur, _ = nextID(cur)
	}
	t += cfg.LatC2BUs + 50
	for i := 0; i < n1; i++ {
		t += r.between(1, 50)
		sc.Script = append(sc.Script, Out{Conn: 1, AtUs: t, Kind: "release", Held: held})
		held++
	}
	t += cfg.LatB2CUs + 100
	n2 := int(r.between(1, 3))
	c2 := cur
	for i := 0; i < n2; i++ {
		var id uint16
		c2, id = nextID(c2)
		for j := 0; j < int(r.between(1, 2)); j++ {
			p := &Pkt{ID: id}
			switch r.IntN(5) {
			case 0:
				p.Type = TPubAck
			case 1:
				p.Type = TPubRec
			case 2:
				p.Type = TPubComp
			case 3:
				p.Type, p.Codes = TSubAck, []byte{byte(r.IntN(3))}
			default:
				p.Type = TUnsubAck
			}
			t += r.between(1, 40)
			sc.Script = append(sc.Script, Out{Conn: 1, AtUs: t, Kind: "pkt", Pkt: p, Class: "forged"})
		}
	}
	t += cfg.LatB2CUs + 100
	for i := 0; i < n2; i++ {
		t += r.between(1, 50)
		sc.Ops = append(sc.Ops, mk(i, "w"))
	}
	t += cfg.LatC2BUs + r.between(500, 2000)
	for i := 0; i < n2; i++ {
		t += r.between(1, 50)
		sc.Script = append(sc.Script, Out{Conn: 1, AtUs: t, Kind: "release", Held: held})
		held++
	}
	sc.HorizonUs = t + 5000
	sc.EndUs = sc.HorizonUs + 2000
	return sc
}

func genC07(r *Rng) *Scenario {
	if r.chance(0.12) {
		return genC07Early(r)
	}
	if r.chance(0.08) {
		return genC07Stale(r)
	}
	sc := &Scenario{Cfg: baseCfg(r)}
	cfg := &sc.Cfg
	cfg.HoldAcks = true
	if r.chance(0.3) {
		cfg.Frag = []int{int(r.between(1, 3))}
	}
	grants := []byte{0, 1, 2, 0x80}
	for i := 0; i < 4; i++ {
		cfg.GrantQoS = append(cfg.GrantQoS, grants[r.IntN(4)])
	}
	sc.Ops = append(sc.Ops, Op{AtUs: 0, Actor: 0, Kind: "connect"})
	t := rtt(cfg) + 10
	n := int(r.between(1, 8))
	cur := cfg.InitIDs[0]
	type reqInfo struct {
		kind string
		id   uint16
		nsub int
	}
	var reqs []reqInfo
	for i := 0; i < n; i++ {
		t += r.between(1, 60)
		op := Op{AtUs: t, Actor: 1 + i}
		var id uint16
		cur, id = nextID(cur)
		ri := reqInfo{id: id}
		switch r.weighted(3, 3, 3, 2) {
		case 0:
			op.Kind, op.QoS, op.Topic, op.Token = "publish", 1, "a", fmt.Sprintf("m%d", i)
			ri.kind = "q1"
		case 1:
			op.Kind, op.QoS, op.Topic, op.Token = "publish", 2, "b", fmt.Sprintf("m%d", i)
			ri.kind = "q2"
		case 2:
			op.Kind = "subscribe"
			k := int(r.between(1, 4))
			for j := 0; j < k; j++ {
				op.Subs = append(op.Subs, SubReq{fmt.Sprintf("f%d/%d", i, j), byte(r.IntN(3))})
			}
			if k > 1 && r.chance(0.25) {
				// the same filter named twice in one call: the SUBSCRIBE packet carries
				// it twice and the SUBACK owes one return code per entry
				op.Subs[k-1].Filter = op.Subs[0].Filter
			}
			ri.kind, ri.nsub = "sub", k
		case 3:
			op.Kind, op.Topics = "unsubscribe", []string{fmt.Sprintf("f%d", i)}
			ri.kind = "unsub"
		}
		if r.chance(0.08) {
			// this caller gives up by its context; its answer, released later, is then
			// an acknowledgement nobody waits for
			op.CtxTimeoutUs = r.between(100, 2000)
		}
		reqs = append(reqs, ri)
		sc.Ops = append(sc.Ops, op)
	}
	t += cfg.LatC2BUs + 50
	if r.chance(0.08) {
		// another goroutine disconnects while the requests wait: none of them may
		// report success without its acknowledgement
		sc.Ops = append(sc.Ops, Op{AtUs: t + r.between(0, 300), Actor: 99, Kind: "disconnect", Cli: 0})
	}
	// releases of held answers in permuted order, forged acks in between
	perm := r.Perm(n + 3) // some indices do not exist (yet): PUBCOMPs appear after PUBRELs
	nItems := int(r.between(int64(n), int64(2*n+4)))
	pi := 0
	for i := 0; i < nItems; i++ {
		t += r.between(1, 300)
		if r.chance(0.55) && pi < len(perm) {
			if r.chance(0.3) && pi+1 < len(perm) {
				// two (or three) answers in a single read: the reader dispatches them
				// back to back before any waiter runs
				hs := []int{perm[pi], perm[pi+1]}
				pi += 2
				if r.chance(0.3) && pi < len(perm) {
					hs = append(hs, perm[pi])
					pi++
				}
				sc.Script = append(sc.Script, Out{Conn: 1, AtUs: t, Kind: "releaseglued", Helds: hs})
				continue
			}
			sc.Script = append(sc.Script, Out{Conn: 1, AtUs: t, Kind: "release", Held: perm[pi]})
			pi++
			continue
		}
		if r.chance(0.2) {
			// late release of anything that exists by now
			sc.Script = append(sc.Script, Out{Conn: 1, AtUs: t, Kind: "release", Held: r.IntN(2*n + 2)})
			continue
		}
		v := reqs[r.IntN(len(reqs))]
		types := []int{TPubAck, TPubRec, TPubComp, TSubAck, TUnsubAck, TPubRel}
		p := &Pkt{}
		switch r.IntN(4) {
		case 0: // right id, other kind
			p.Type = types[r.IntN(len(types))]
			p.ID = v.id
			// a PUBCOMP carrying a QoS 2 request's own id is allowed at any time: before
			// its PUBREL it must neither complete nor disturb the request
			own := map[string][]int{"q1": {TPubAck}, "q2": {TPubRec}, "sub": {TSubAck}, "unsub": {TUnsubAck}}
			for _, o := range own[v.kind] {
				if o == p.Type {
					p.Type = TPubRel // never an answer to a client request
				}
			}
		case 1: // an id nobody uses
			p.Type = types[r.IntN(5)]
			p.ID = v.id + uint16(r.between(20, 2000))
			if p.ID == 0 {
				p.ID = 1
			}
		case 2: // unsolicited PINGRESP / CONNACK
			if r.chance(0.5) {
				p.Type = TPingResp
			} else {
				p.Type = TConnAck
			}
		case 3: // SUBACK with the wrong number of codes for a subscribe
			if v.kind != "sub" {
				p.Type, p.ID = TUnsubAck, v.id+3000
				if p.ID == 0 {
					p.ID = 1
				}
				break
			}
			p.Type, p.ID = TSubAck, v.id
			k := v.nsub + int(r.pickI(-1, 1, 2))
			if v.nsub > 1 && r.chance(0.3) {
				k = 1
			}
			for j := 0; j < k; j++ {
				p.Codes = append(p.Codes, []byte{0, 1, 2, 0x80}[r.IntN(4)])
			}
		}
		if p.Type == TSubAck && p.Codes == nil {
			p.Codes = []byte{0}
		}
		sc.Script = append(sc.Script, Out{Conn: 1, AtUs: t, Kind: "pkt", Pkt: p, Class: "forged"})
	}
	// finally release everything that is left, so that "completes normally
	// afterwards" is exercised
	for j := 0; j < 2*n+2; j++ {
		t += r.between(1, 100)
		sc.Script = append(sc.Script, Out{Conn: 1, AtUs: t, Kind: "release", Held: j})
	}
	for j := 0; j < n; j++ { // PUBCOMPs created by the late PUBRECs
		t += r.between(1, 100)
		sc.Script = append(sc.Script, Out{Conn: 1, AtUs: t + 2*rtt(cfg), Kind: "release", Held: 2*n + 2 - 1 - j})
	}
	t += 4 * rtt(cfg)
	for j := 0; j < 3*n+3; j++ {
		sc.Script = append(sc.Script, Out{Conn: 1, AtUs: t + int64(j), Kind: "release", Held: j})
	}
	if r.chance(0.15) {
		// a Message struct that is published again keeps the identifier the first
		// Publish put into it; the first call's context ends (the usual deferred
		// cancel, some time later) while the second call waits for its own PUBACK
		t += 3*int64(n) + 500
		pid := uint16(0x7000 + r.IntN(0x0f00))
		sc.Ops = append(sc.Ops, Op{AtUs: t, Actor: 50, Kind: "publish", QoS: 1, Topic: "a", Token: "again1", PresetID: pid})
		a := len(sc.Ops) - 1
		t += cfg.LatC2BUs + 50
		sc.Script = append(sc.Script, Out{Conn: 1, AtUs: t, Kind: "release", Held: -1})
		t += cfg.LatB2CUs + 200
		sc.Ops = append(sc.Ops, Op{AtUs: t, Actor: 51, Kind: "publish", QoS: 1, Topic: "a", Token: "again2", PresetID: pid})
		t += cfg.LatC2BUs + 100
		sc.Ops = append(sc.Ops, Op{AtUs: t, Actor: -1, Kind: "cancel", Target: a})
		t += 300
		sc.Script = append(sc.Script, Out{Conn: 1, AtUs: t, Kind: "release", Held: -1})
		t += cfg.LatB2CUs + 100
	}
	sc.HorizonUs = t + 5000
	sc.EndUs = sc.HorizonUs + 5000
	return sc
}

// ---------------------------------------------------------------- C11 / C19

// c11Cells enumerates the call x step x cause matrix.
type c11Cell struct {
	call, step, cause string
}

func (c c11Cell) String() string { return c.call + "/" + c.step + "/" + c.cause }

func C11Matrix() []c11Cell {
	var cells []c11Cell
	calls := []string{"publish1", "publish2", "subscribe", "unsubscribe", "ping"}
	causes := []string{"cancel", "deadline", "localclose", "peereof", "peerreset", "malformed", "disconnect", "connacks-peereof"}
	for _, c := range calls {
		steps := []string{"before", "afterwrite"}
		if c == "publish2" {
			steps = append(steps, "between")
		}
		for _, s := range steps {
			for _, ca := range causes {
				cells = append(cells, c11Cell{c, s, ca})
			}
		}
	}
	for _, ca := range []string{"cancel", "deadline", "localclose", "peereof", "peerreset", "malformed", "refused"} {
		cells = append(cells, c11Cell{"connect", "connack", ca})
	}
	for _, ca := range []string{"cancel", "deadline", "localclose", "peereof", "peerreset", "writeerr"} {
		cells = append(cells, c11Cell{"connect", "before", ca})
	}
	for _, ca := range []string{"cancel", "localclose", "peereof", "peerreset"} {
		cells = append(cells, c11Cell{"disconnect", "before", ca})
	}
	// Connect called with a context that has already ended, then a local Close:
	// the connection object ends like any other (Done() closed, nothing left)
	cells = append(cells, c11Cell{"connect", "before+close", "cancel"})
	// Disconnect on a client whose Connect did not succeed (refused by a peer
	// that keeps the connection open; no CONNACK before the deadline), then the
	// peer closes: the connection ends as a disconnected one
	cells = append(cells, c11Cell{"disconnect", "after-failed-connect", "refused"}, c11Cell{"disconnect", "after-failed-connect", "deadline"})
	cells = append(cells, c11Cell{"connect", "after-disconnect", "none"})
	cells = append(cells, c11Cell{"disconnect", "during-close", "peereof"}, c11Cell{"publish1", "during-close", "peereof"})
	// Connect / Disconnect of the reconnecting client
	for _, st := range []string{"dialparked", "connack", "backoff"} {
		for _, ca := range []string{"cancel", "deadline"} {
			cells = append(cells, c11Cell{"rc-connect", st, ca})
		}
	}
	cells = append(cells, c11Cell{"rc-disconnect", "after-cancelled-connect", "none"})
	cells = append(cells, c11Cell{"rc-disconnect", "connect-cancelled-afterdial", "none"})
	for _, st := range []string{"connected", "backoff", "dialparked", "connack"} {
		for _, ca := range []string{"none", "deadline"} {
			cells = append(cells, c11Cell{"rc-disconnect", st, ca})
		}
	}
	return cells
}

func c11Op(call string, at int64, actor int, tok string) Op {
	op := Op{AtUs: at, Actor: actor}
	switch call {
	case "publish1":
		op.Kind, op.QoS, op.Topic, op.Token = "publish", 1, "a", tok
	case "publish2":
		op.Kind, op.QoS, op.Topic, op.Token = "publish", 2, "a", tok
	case "subscribe":
		op.Kind, op.Subs = "subscribe", []SubReq{{"a", 1}}
	case "unsubscribe":
		op.Kind, op.Topics = "unsubscribe", []string{"a"}
	case "ping":
		op.Kind = "ping"
	case "disconnect":
		op.Kind = "disconnect"
	}
	return op
}

// applyCause adds the cause at time t aimed at op index target.
func applyCause(sc *Scenario, cause string, t int64, target int, r *Rng) {
	switch cause {
	case "cancel":
		sc.Ops = append(sc.Ops, Op{AtUs: t, Actor: -1, Kind: "cancel", Target: target})
	case "deadline":
		d := t - sc.Ops[target].AtUs
		if d < 1 {
			d = 1
		}
		sc.Ops[target].CtxTimeoutUs = d
	case "localclose":
		sc.Ops = append(sc.Ops, Op{AtUs: t, Actor: -1, Kind: "close", Cli: 0})
	case "peereof":
		sc.Faults = append(sc.Faults, Fault{Kind: "cutAt", Conn: 1, AtUs: t})
	case "peerreset":
		sc.Faults = append(sc.Faults, Fault{Kind: "cutAt", Conn: 1, AtUs: t, Reset: true})
	case "connacks-peereof":
		// the peer sends CONNACK twice more (a proxy replaying it, a confused
		// broker), then closes
		for j := int64(2); j >= 1; j-- {
			sc.Script = append(sc.Script, Out{Conn: 1, AtUs: t - sc.Cfg.LatB2CUs - 40*j, Kind: "pkt", Pkt: &Pkt{Type: TConnAck}, Class: "forged"})
		}
		sc.Faults = append(sc.Faults, Fault{Kind: "cutAt", Conn: 1, AtUs: t})
	case "malformed":
		raws := []string{hx(0xf0, 0), hx(0x36, 3, 0, 1, 'a'), hx(0x41, 2, 0, 1), hx(0x40, 0x80, 0x80, 0x80, 0x80, 0x01), hx(0x90, 0), hx(0x20, 1, 0)}
		sc.Script = append(sc.Script, Out{Conn: 1, AtUs: t - sc.Cfg.LatB2CUs, Kind: "raw", RawHex: raws[r.IntN(len(raws))], Class: "malformed"})
	case "refused":
		// the five codes MQTT 3.1.1 defines, reserved ones, and MQTT 5 reason codes
		sc.Faults = append(sc.Faults, Fault{Kind: "connackRefuse", Conn: 1, Code: []byte{1, 2, 3, 4, 5, 6, 0x80, 0x84, 0xFF}[r.IntN(9)]})
	case "disconnect":
		// another goroutine disconnects while the call is blocked
		sc.Ops = append(sc.Ops, Op{AtUs: t, Actor: 99, Kind: "disconnect", Cli: 0})
	}
}

// genC11ReconnCell: Connect / Disconnect of the reconnecting client in a
// given phase of its loop.
func genC11ReconnCell(r *Rng, cell c11Cell) *Scenario {
	sc := &Scenario{}
	cfg := &sc.Cfg
	cfg.Client, cfg.ClientID = "reconnect", "cid"
	cfg.LatC2BUs, cfg.LatB2CUs, cfg.DialLatUs = 100, 100, 50
	cfg.ReconnBaseUs, cfg.ReconnMaxUs = 2000, 8000
	cfg.BrokerMethod = "A"
	cfg.InitIDs = []uint32{0}
	sc.Ops = append(sc.Ops, Op{AtUs: 0, Actor: 0, Kind: "connect"})
	tc := int64(1000) // when the cause lands
	switch cell.step {
	case "dialparked":
		sc.Faults = append(sc.Faults, Fault{Kind: "dialStall", Conn: 1})
	case "connack":
		sc.Faults = append(sc.Faults, Fault{Kind: "connackNever", Conn: 1})
	case "backoff":
		sc.Faults = append(sc.Faults, Fault{Kind: "dialErr", Conn: 1})
	case "connected":
	}
	if cell.step == "after-cancelled-connect" {
		// Connect's context is cancelled while the loop is parked between the
		// successful CONNACK and reporting the first success; a later Disconnect
		// must still complete
		cfg.Yields = map[string]int64{"reconn.afterConnect": 500}
		sc.Ops = append(sc.Ops, Op{AtUs: 400, Actor: -1, Kind: "cancel", Target: 0})
		sc.Ops = append(sc.Ops, Op{AtUs: 3000, Actor: 1, Kind: "disconnect", Token: "must-return"})
		sc.HorizonUs, sc.EndUs = 20000, 60000
		return sc
	}
	if cell.step == "connect-cancelled-afterdial" {
		// Connect's context ends after the dial succeeded and before CONNECT is
		// exchanged (the loop is parked right after the dial): the attempt is given
		// up, the loop stops, and a later Disconnect completes
		cfg.Yields = map[string]int64{"reconn.afterDial": 500}
		sc.Ops = append(sc.Ops, Op{AtUs: 300, Actor: -1, Kind: "cancel", Target: 0})
		sc.Ops = append(sc.Ops, Op{AtUs: 3000, Actor: 1, Kind: "disconnect", Token: "must-return"})
		sc.HorizonUs, sc.EndUs = 20000, 60000
		return sc
	}
	if cell.call == "rc-connect" {
		if cell.cause == "cancel" {
			sc.Ops = append(sc.Ops, Op{AtUs: tc, Actor: -1, Kind: "cancel", Target: 0})
		} else {
			sc.Ops[0].CtxTimeoutUs = tc
		}
	} else {
		// a first connection must exist before Disconnect may be called (the
		// retrying client's Disconnect before SetClient is documented misuse):
		// phases other than "connected" are reached on the second attempt
		if cell.step != "connected" {
			for i := range sc.Faults {
				sc.Faults[i].Conn = 2
			}
			sc.Faults = append(sc.Faults, Fault{Kind: "cutAt", Conn: 1, AtUs: 600})
			tc = 600 + 2000 + 300 // inside attempt 2 (dial parked / waiting CONNACK)
			if cell.step == "backoff" {
				tc = 600 + 2000 + 50 + 1000 // inside the second back-off
			}
		}
		op := Op{AtUs: tc, Actor: 1, Kind: "disconnect"}
		if cell.cause == "deadline" {
			op.CtxTimeoutUs = 700
		}
		if cell.step == "connected" || cell.step == "backoff" {
			op.Token = "must-return" // phases in which the loop can observe the request
		}
		sc.Ops = append(sc.Ops, op)
	}
	sc.HorizonUs, sc.EndUs = 20000, 60000
	return sc
}

func genC11Cell(r *Rng, cell c11Cell) *Scenario {
	if cell.call == "rc-connect" || cell.call == "rc-disconnect" {
		return genC11ReconnCell(r, cell)
	}
	sc := &Scenario{Cfg: baseCfg(r)}
	cfg := &sc.Cfg
	cfg.HoldAcks = true
	cfg.LatC2BUs, cfg.LatB2CUs = 100, 100
	if cell.call == "connect" && cell.step == "after-disconnect" {
		// Disconnect wins the race against Connect on the same client object
		sc.Ops = append(sc.Ops, Op{AtUs: 50, Actor: 1, Kind: "disconnect"})
		sc.Ops = append(sc.Ops, Op{AtUs: 100, Actor: 0, Kind: "connect"})
		sc.HorizonUs, sc.EndUs = 6000, 8000
		return sc
	}
	if cell.call == "connect" {
		sc.Ops = append(sc.Ops, Op{AtUs: 100, Actor: 0, Kind: "connect"})
		switch cell.step {
		case "before+close":
			sc.Ops = append([]Op{{AtUs: 10, Actor: 5, Kind: "handle", Handler: 1}}, sc.Ops...)
			applyCause(sc, "cancel", 50, len(sc.Ops)-1, r)
			sc.Ops = append(sc.Ops, Op{AtUs: 1000, Actor: -1, Kind: "close", Cli: 0})
		case "before":
			if cell.cause == "writeerr" {
				// the CONNECT write itself fails
				sc.Faults = append(sc.Faults, Fault{Kind: "writeErr", Conn: 1, N: 0, Prefix: int(r.between(0, 5))})
			} else if cell.cause == "localclose" {
				// the transport is closed locally before Connect is called: the client
				// object must exist first
				sc.Ops = append([]Op{{AtUs: 10, Actor: 5, Kind: "handle", Handler: 1}}, sc.Ops...)
				sc.Ops = append(sc.Ops, Op{AtUs: 50, Actor: -1, Kind: "close", Cli: 0})
			} else {
				if cell.cause == "peereof" || cell.cause == "peerreset" {
					sc.Ops = append([]Op{{AtUs: 10, Actor: 5, Kind: "handle", Handler: 1}}, sc.Ops...)
				}
				applyCause(sc, cell.cause, 50, len(sc.Ops)-1, r)
			}
			if cell.cause == "deadline" {
				sc.Ops[len(sc.Ops)-1].CtxTimeoutUs = 1
				sc.Faults = append(sc.Faults, Fault{Kind: "connackNever", Conn: 1})
			}
		case "connack":
			if cell.cause != "refused" {
				sc.Faults = append(sc.Faults, Fault{Kind: "connackNever", Conn: 1})
			}
			applyCause(sc, cell.cause, 1000, 0, r)
		}
		sc.HorizonUs, sc.EndUs = 6000, 8000
		return sc
	}
	if cell.step == "after-failed-connect" {
		sc.Ops = append(sc.Ops, Op{AtUs: 0, Actor: 0, Kind: "connect"})
		if cell.cause == "refused" {
			sc.Faults = append(sc.Faults, Fault{Kind: "connackRefuse", Conn: 1, Code: byte(r.between(1, 5)), Prefix: 1})
		} else {
			sc.Faults = append(sc.Faults, Fault{Kind: "connackNever", Conn: 1})
			sc.Ops[0].CtxTimeoutUs = 600
		}
		sc.Ops = append(sc.Ops, Op{AtUs: 2000, Actor: 1, Kind: "disconnect", Cli: 0})
		sc.Faults = append(sc.Faults, Fault{Kind: "cutAt", Conn: 1, AtUs: 4000})
		sc.HorizonUs, sc.EndUs = 8000, 10000
		return sc
	}
	sc.Ops = append(sc.Ops, Op{AtUs: 0, Actor: 0, Kind: "connect"})
	if cell.step == "during-close" {
		// the peer closes; the client's own Transport.Close() takes 500 us to
		// return; the call lands in the middle of it
		cfg.Yields = map[string]int64{"app.transportClose": 500}
		sc.Faults = append(sc.Faults, Fault{Kind: "cutAt", Conn: 1, AtUs: 2000})
		sc.Ops = append(sc.Ops, c11Op(cell.call, 2200, 1, "m1"))
		sc.HorizonUs, sc.EndUs = 8000, 10000
		return sc
	}
	call := c11Op(cell.call, 1000, 1, "m1")
	switch cell.step {
	case "before":
		sc.Ops = append(sc.Ops, call)
		applyCause(sc, cell.cause, 600, 1, r)
		if cell.cause == "deadline" {
			// a deadline that is already over when the call starts
			sc.Ops[1].CtxTimeoutUs = 0
			sc.Ops = append(sc.Ops, Op{AtUs: 990, Actor: -1, Kind: "cancel", Target: 1})
		}
	case "afterwrite":
		sc.Ops = append(sc.Ops, call)
		applyCause(sc, cell.cause, 2000, 1, r)
	case "between":
		sc.Ops = append(sc.Ops, call)
		sc.Script = append(sc.Script, Out{Conn: 1, AtUs: 1500, Kind: "release", Held: 0}) // PUBREC
		applyCause(sc, cell.cause, 3000, 1, r)
	}
	sc.HorizonUs, sc.EndUs = 8000, 10000
	return sc
}

func genC11(r *Rng, prop string) *Scenario {
	cells := C11Matrix()
	if r.matrixCell >= 0 && r.matrixCell < len(cells) {
		return genC11Cell(r, cells[r.matrixCell])
	}
	if r.chance(0.5) {
		// single cell, randomised details
		return genC11Cell(r, cells[r.IntN(len(cells))])
	}
	// several calls blocked at once, one or two causes
	sc := &Scenario{Cfg: baseCfg(r)}
	cfg := &sc.Cfg
	cfg.HoldAcks = true
	cfg.LatC2BUs, cfg.LatB2CUs = r.between(20, 200), r.between(20, 200)
	sc.Ops = append(sc.Ops, Op{AtUs: 0, Actor: 0, Kind: "connect"})
	t := rtt(cfg) + 100
	n := int(r.between(2, 5))
	calls := []string{"publish1", "publish2", "subscribe", "unsubscribe", "ping"}
	for i := 0; i < n; i++ {
		t += r.between(1, 100)
		sc.Ops = append(sc.Ops, c11Op(calls[r.IntN(len(calls))], t, 1+i, fmt.Sprintf("m%d", i)))
	}
	if r.chance(0.3) {
		sc.Script = append(sc.Script, Out{Conn: 1, AtUs: t + 300, Kind: "release", Held: 0})
	}
	if r.chance(0.3) {
		// inbound traffic handled by a handler that calls back into the client
		sc.Ops = append([]Op{{AtUs: 0, Actor: 50, Kind: "handle", Handler: 3}}, sc.Ops...)
		q := byte(r.IntN(3))
		p := &Pkt{Type: TPublish, QoS: q, Topic: "a/x", Pay: "inre"}
		if q > 0 {
			p.ID = 77
		}
		sc.Script = append(sc.Script, Out{Conn: 1, AtUs: t + 200, Kind: "pkt", Pkt: p})
		if q == 2 {
			sc.Script = append(sc.Script, Out{Conn: 1, AtUs: t + 350, Kind: "pkt", Pkt: &Pkt{Type: TPubRel, ID: 77}})
		}
	}
	causes := []string{"cancel", "deadline", "localclose", "peereof", "peerreset", "malformed", "disconnect"}
	tc := t + r.between(400, 3000)
	off := 1
	if sc.Ops[0].Kind == "handle" {
		off = 2
	}
	applyCause(sc, causes[r.IntN(len(causes))], tc, off+r.IntN(n), r)
	if r.chance(0.4) {
		applyCause(sc, causes[r.IntN(len(causes))], tc+r.between(0, 500), off+r.IntN(n), r)
	}
	sc.HorizonUs = tc + 6000
	sc.EndUs = sc.HorizonUs + 2000
	return sc
}

// ---------------------------------------------------------------- C12 (retry handle)

func genC12Base(r *Rng) *Scenario {
	sc := &Scenario{Cfg: baseCfg(r)}
	cfg := &sc.Cfg
	cfg.HoldAcks = true
	cfg.LatC2BUs, cfg.LatB2CUs = 100, 100
	cfg.InitIDs = []uint32{uint32(r.IntN(0x10000)), uint32(r.IntN(0x10000)), uint32(r.IntN(0x10000)), uint32(r.IntN(0x10000))}
	qos := byte(r.between(1, 2))
	kind := r.weighted(6, 2, 2)
	depth := int(r.between(1, 3))
	t := int64(0)
	prev := -1
	cli, conn := 0, 1
	sameClient := false // the next Retry is made on the client of the previous attempt, whose connection is still up
	for d := 0; d <= depth; d++ {
		if !sameClient {
			cli, conn = d, d+1
			sc.Ops = append(sc.Ops, Op{AtUs: t, Actor: 10 + d, Kind: "connect", Cli: cli})
		}
		sameClient = false
		t += 1000
		var op Op
		if d == 0 {
			switch kind {
			case 0:
				op = Op{Kind: "publish", QoS: qos, Topic: "a/x", Token: "m1", Retain: r.chance(0.3), DupIn: r.chance(0.15)}
				if r.chance(0.2) {
					op.PresetID = uint16(r.between(1, 65535))
				}
			case 1:
				op = Op{Kind: "subscribe", Subs: []SubReq{{"a", byte(r.IntN(3))}, {"b", byte(r.IntN(3))}}}
			default:
				op = Op{Kind: "unsubscribe", Topics: []string{"a", "b"}}
			}
		} else {
			op = Op{Kind: "retryhandle", Target: prev}
			if r.chance(0.15) {
				// the same handle is first tried on a client that is not connected
				// (nothing is sent, ErrNotConnected): it must still work afterwards
				sc.Ops = append(sc.Ops, Op{AtUs: t - 500, Actor: 40 + d, Kind: "retryhandle", Target: prev, Cli: depth + 1 + d})
			}
		}
		op.AtUs, op.Actor, op.Cli = t, 20+d, cli
		sc.Ops = append(sc.Ops, op)
		me := len(sc.Ops) - 1
		prev = me
		if d == depth {
			// last attempt completes: release everything held for this connection
			for j := 0; j < 3; j++ {
				sc.Script = append(sc.Script, Out{Conn: conn, AtUs: t + 500 + int64(j)*400, Kind: "release", Held: -1})
			}
			t += 5000
			break
		}
		// interrupt this attempt at a chosen step by a chosen cause
		step := r.IntN(3)
		if !(kind == 0 && qos == 2) && step == 2 {
			step = 1
		}
		cause := r.pick("cancel", "deadline", "localclose", "peereof", "peerreset", "writeerr")
		switch step {
		case 0: // the write itself fails / dead link before the call
			if cause == "writeerr" || cause == "deadline" {
				sc.Faults = append(sc.Faults, Fault{Kind: "writeErr", Conn: conn, N: 1, Prefix: int(r.between(0, 5)), Code: byte(r.pickI(0, 1, 3))})
			} else {
				// incl. a context that is already cancelled when the call is made:
				// the request is still written once (DUP=0) before the call gives up
				genCause(sc, cause, t-200, me, cli, conn)
			}
		case 1: // after the request was written
			if cause == "writeerr" {
				cause = "peereof"
			}
			genCause(sc, cause, t+600, me, cli, conn)
			if (cause == "cancel" || cause == "deadline") && r.chance(0.5) {
				sameClient = true // only the caller gave up: the handle is used on the same, still connected client
			}
		case 2: // between PUBREC and PUBCOMP
			sc.Script = append(sc.Script, Out{Conn: conn, AtUs: t + 300, Kind: "release", Held: -1})
			if cause == "writeerr" {
				// PUBREL write fails
				sc.Faults = append(sc.Faults, Fault{Kind: "writeErr", Conn: conn, N: 2, Prefix: int(r.between(0, 3)), Code: byte(r.pickI(0, 1, 3))})
			} else {
				genCause(sc, cause, t+1500, me, cli, conn)
			}
		}
		t += 3000
	}
	sc.HorizonUs = t + 2000
	sc.EndUs = sc.HorizonUs + 2000
	return sc
}

func genCause(sc *Scenario, cause string, t int64, target, cli, conn int) {
	switch cause {
	case "cancel":
		sc.Ops = append(sc.Ops, Op{AtUs: t, Actor: -1, Kind: "cancel", Target: target})
	case "deadline":
		d := t - sc.Ops[target].AtUs
		if d < 1 {
			d = 1
		}
		sc.Ops[target].CtxTimeoutUs = d
	case "localclose":
		sc.Ops = append(sc.Ops, Op{AtUs: t, Actor: -1, Kind: "close", Cli: cli})
	case "peereof":
		sc.Faults = append(sc.Faults, Fault{Kind: "cutAt", Conn: conn, AtUs: t})
	case "peerreset":
		sc.Faults = append(sc.Faults, Fault{Kind: "cutAt", Conn: conn, AtUs: t, Reset: true})
	}
}

// ---------------------------------------------------------------- C15

func genC15(r *Rng) *Scenario {
	sc := &Scenario{Cfg: baseCfg(r)}
	cfg := &sc.Cfg
	cfg.HoldAcks = true
	cfg.LatC2BUs, cfg.LatB2CUs = 50, 50
	switch r.IntN(8) {
	case 5:
		// a counter far above 16 bits whose low half is small: the identifiers
		// start just above zero, and any "normalisation" of the counter must not
		// make them start over while the first ones are outstanding
		cfg.InitIDs = []uint32{uint32(r.between(1, 0xFFFE))<<16 | uint32(r.IntN(24))}
	case 0:
		cfg.InitIDs = []uint32{0xFFFF - uint32(r.IntN(30))}
	case 1:
		cfg.InitIDs = []uint32{0xFFFE}
	case 2:
		cfg.InitIDs = []uint32{0xFFFD}
	case 3:
		cfg.InitIDs = []uint32{0x1FFF0 + uint32(r.IntN(16))}
	case 4:
		cfg.InitIDs = []uint32{0xFFFFFFF0 + uint32(r.IntN(16))} // the 32-bit counter itself overflows
	}
	sc.Ops = append(sc.Ops, Op{AtUs: 0, Actor: 0, Kind: "connect"})
	t := rtt(cfg) + 50
	n := int(r.between(1, 40))
	held := 0
	var pendingRelease []int
	for i := 0; i < n; i++ {
		t += r.between(1, 30)
		op := Op{AtUs: t, Actor: 1 + i}
		switch r.weighted(3, 3, 2, 2, 1) {
		case 0:
			op.Kind, op.QoS, op.Topic, op.Token = "publish", 1, "a", fmt.Sprintf("m%d", i)
		case 1:
			op.Kind, op.QoS, op.Topic, op.Token = "publish", 2, "a", fmt.Sprintf("m%d", i)
		case 2:
			op.Kind, op.Subs = "subscribe", []SubReq{{fmt.Sprintf("f%d", i), 0}}
		case 3:
			op.Kind, op.Topics = "unsubscribe", []string{fmt.Sprintf("f%d", i)}
		case 4:
			op.Kind, op.QoS, op.Topic, op.Token = "publish", 0, "a", fmt.Sprintf("m%d", i)
		}
		if op.Kind == "publish" && op.QoS > 0 && r.chance(0.15) {
			op.PresetID = uint16(r.between(1, 65535))
			if r.chance(0.5) {
				// aim at an id the counter is about to produce
				op.PresetID = uint16(cfg.InitIDs[0] + uint32(r.between(1, int64(n)+2)))
				if op.PresetID == 0 {
					op.PresetID = 1
				}
			}
		}
		if (op.Kind != "publish" || op.QoS > 0) && r.chance(0.12) {
			// given up by its context while others stay outstanding
			op.CtxTimeoutUs = r.between(20, 400)
		}
		sc.Ops = append(sc.Ops, op)
		if op.Kind != "publish" || op.QoS > 0 {
			if r.chance(0.5) {
				pendingRelease = append(pendingRelease, held)
			}
			held++
		}
		if i == n/2 && r.chance(0.12) {
			// a broker (or proxy) that sends CONNACK a second time in the middle of
			// the connection, with requests outstanding
			sc.Script = append(sc.Script, Out{Conn: 1, AtUs: t + 2, Kind: "pkt", Pkt: &Pkt{Type: TConnAck}, Class: "forged"})
		}
		// complete some requests while others stay outstanding
		if len(pendingRelease) > 0 && r.chance(0.4) {
			j := r.IntN(len(pendingRelease))
			sc.Script = append(sc.Script, Out{Conn: 1, AtUs: t + cfg.LatC2BUs + 5, Kind: "release", Held: pendingRelease[j]})
			pendingRelease = append(pendingRelease[:j], pendingRelease[j+1:]...)
		}
	}
	sc.HorizonUs = t + 3000
	sc.EndUs = sc.HorizonUs + 1000
	return sc
}

// genIDCycle: one request stays outstanding while 65 535 further requests
// are issued and acknowledged one after another on the same connection.
func genIDCycle(r *Rng, prop string) *Scenario {
	sc := &Scenario{Cfg: baseCfg(r)}
	cfg := &sc.Cfg
	cfg.LatC2BUs, cfg.LatB2CUs = 10, 10
	cfg.InitIDs = []uint32{uint32(r.IntN(0x10000))}
	cfg.HoldAcks = false
	sc.Ops = append(sc.Ops, Op{AtUs: 0, Actor: 0, Kind: "connect"})
	// the outstanding one: its PUBACK is dropped silently
	sc.Ops = append(sc.Ops, Op{AtUs: 100, Actor: 1, Kind: "publish", QoS: 1, Topic: "a", Token: "held"})
	sc.Faults = append(sc.Faults, Fault{Kind: "dropB2C", Conn: 1, N: 1})
	t := int64(200)
	for i := 0; i < 65540; i++ {
		t += 30
		sc.Ops = append(sc.Ops, Op{AtUs: t, Actor: 2, Kind: "unsubscribe", Topics: []string{"x"}})
	}
	sc.HorizonUs = t + 1000
	sc.EndUs = sc.HorizonUs + 1000
	return sc
}

// genC19Validation: errors that must be reported before anything is written:
// calls before Connect, oversize payloads, QoS above 2.
func genC19Validation(r *Rng) *Scenario {
	sc := &Scenario{Cfg: baseCfg(r)}
	cfg := &sc.Cfg
	cfg.MaxPayloadLen = int(r.between(8, 64))
	t := int64(0)
	add := func(op Op) {
		t += r.between(1, 50)
		op.AtUs, op.Actor = t, 1+len(sc.Ops)
		sc.Ops = append(sc.Ops, op)
	}
	// before Connect
	for i := 0; i < int(r.between(1, 3)); i++ {
		switch r.IntN(4) {
		case 0:
			add(Op{Kind: "publish", QoS: byte(r.IntN(3)), Topic: "a", Token: fmt.Sprintf("early%d", i)})
		case 1:
			add(Op{Kind: "subscribe", Subs: []SubReq{{"a", 1}}})
		case 2:
			add(Op{Kind: "unsubscribe", Topics: []string{"a"}})
		case 3:
			add(Op{Kind: "ping"})
		}
	}
	t += 100
	sc.Ops = append(sc.Ops, Op{AtUs: t, Actor: 0, Kind: "connect"})
	t += rtt(cfg) + 50
	for i := 0; i < int(r.between(1, 4)); i++ {
		switch r.IntN(3) {
		case 0: // payload over the configured maximum
			add(Op{Kind: "publish", QoS: byte(r.IntN(3)), Topic: "a", Token: fmt.Sprintf("big%d", i), PayLen: cfg.MaxPayloadLen + int(r.between(1, 40))})
		case 1: // a QoS the protocol cannot carry
			add(Op{Kind: "publish", QoS: byte(r.between(3, 9)), Topic: "a", Token: fmt.Sprintf("q%d", i)})
		case 2: // fine
			add(Op{Kind: "publish", QoS: 0, Topic: "a", Token: fmt.Sprintf("ok%d", i), PayLen: int(r.between(0, int64(cfg.MaxPayloadLen)-2))})
		}
	}
	sc.HorizonUs = t + 3000
	sc.EndUs = sc.HorizonUs + 1000
	return sc
}
