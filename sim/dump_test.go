package sim

import (
	"fmt"
	"os"
	"strconv"
	"testing"
)

// TestDumpScenario prints the scenario of VERIF_DUMP=prop:seed:index.
func TestDumpScenario(t *testing.T) {
	v := os.Getenv("VERIF_DUMP")
	if v == "" {
		t.Skip()
	}
	var prop string
	var seed, i uint64
	parts := splitColon(v)
	prop = parts[0]
	seed, _ = strconv.ParseUint(parts[1], 10, 64)
	i, _ = strconv.ParseUint(parts[2], 10, 64)
	sc := Generate(prop, seed, i)
	fmt.Println(string(sc.JSON()))
}

func splitColon(s string) []string {
	var out []string
	cur := ""
	for _, c := range s {
		if c == ':' {
			out = append(out, cur)
			cur = ""
		} else {
			cur += string(c)
		}
	}
	return append(out, cur)
}
