package sim

type kaState struct{}

func (s *Sim) extraSetup() {}
func (s *Sim) kaTeardown() {}
