package sim

import (
	"context"
	"errors"
	"time"

	mqtt "github.com/at-wat/mqtt-go"
)

// keepalive family (C13 part 1): mqtt.KeepAlive driven against a scripted
// Client whose Ping outcome per call is scenario data.

var errKAFail = errors.New("simclient: ping failed")

type kaState struct {
	cancel context.CancelFunc
	n      int
}

type kaClient struct{ s *Sim }

func (k *kaClient) Connect(ctx context.Context, clientID string, opts ...mqtt.ConnectOption) (bool, error) {
	return false, nil
}
func (k *kaClient) Disconnect(ctx context.Context) error                  { return nil }
func (k *kaClient) Publish(ctx context.Context, m *mqtt.Message) error    { return nil }
func (k *kaClient) Unsubscribe(ctx context.Context, subs ...string) error { return nil }
func (k *kaClient) Handle(mqtt.Handler)                                   {}
func (k *kaClient) Subscribe(ctx context.Context, subs ...mqtt.Subscription) ([]mqtt.Subscription, error) {
	return nil, nil
}

func (k *kaClient) Ping(ctx context.Context) error {
	s := k.s
	s.mu.Lock()
	n := s.ka.n
	s.ka.n++
	s.mu.Unlock()
	out := KAPing{Kind: "answer"}
	if n < len(s.sc.Cfg.KAPings) {
		out = s.sc.Cfg.KAPings[n]
	}
	dl, hasDl := ctx.Deadline()
	r := Rec{Kind: "kaping", N: n, S: out.Kind, V: out.DelayUs}
	if hasDl {
		r.Err = time.Until(dl).String()
	}
	s.log(r)
	var err error
	switch out.Kind {
	case "fail":
		err = errKAFail
	case "never":
		<-ctx.Done()
		err = ctx.Err()
	default:
		if out.DelayUs > 0 {
			tm := time.NewTimer(time.Duration(out.DelayUs) * time.Microsecond)
			select {
			case <-tm.C:
			case <-ctx.Done():
				tm.Stop()
				err = ctx.Err()
			}
		} else if ctx.Err() != nil {
			err = ctx.Err()
		}
	}
	rr := Rec{Kind: "kapingret", N: n}
	if err != nil {
		rr.Err = err.Error()
	}
	s.log(rr)
	return err
}

func (s *Sim) extraSetup() {
	cfg := &s.sc.Cfg
	if cfg.Client != "keepalive" {
		return
	}
	s.ka = &kaState{}
	ctx, cancel := context.WithCancel(context.Background())
	s.ka.cancel = cancel
	if cfg.KAPreCancel {
		cancel()
		s.log(Rec{Kind: "kacancel", S: "pre"})
	} else if cfg.KACancelUs > 0 && cfg.KADeadline {
		// the parent context has a deadline of its own (no event of the
		// simulator coincides with it: the record is written now)
		d := time.Duration(us(cfg.KACancelUs)+499) - time.Duration(s.nowNs())
		cancel()
		ctx, cancel = context.WithTimeout(context.Background(), d)
		s.ka.cancel = cancel
		s.log(Rec{Kind: "kacancel", S: "deadline", V: us(cfg.KACancelUs) + 499})
	} else if cfg.KACancelUs > 0 {
		s.at(us(cfg.KACancelUs)+499, "kacancel", func() {
			s.log(Rec{Kind: "kacancel"})
			cancel()
		})
	}
	s.log(Rec{Kind: "kastart"})
	go func() {
		err := mqtt.KeepAlive(ctx, &kaClient{s}, time.Duration(cfg.KAIntervalUs)*time.Microsecond, time.Duration(cfg.KATimeoutUs)*time.Microsecond)
		r := Rec{Kind: "karet"}
		if err != nil {
			r.Err = err.Error()
			r.Cls = classify(err)
			r.B = err == errKAFail
		}
		s.log(r)
	}()
}

func (s *Sim) kaTeardown() {
	if s.ka != nil && s.ka.cancel != nil {
		s.ka.cancel()
	}
}

func genKeepAlive(r *Rng, prop string) *Scenario {
	sc := &Scenario{}
	cfg := &sc.Cfg
	cfg.Client = "keepalive"
	u := r.pickI(1000, 7000, 100000, 1000000) // unit in us
	a := r.between(1, 5)
	b := r.between(1, 5)
	if r.chance(0.3) {
		b = a // default: timeout = interval
	}
	cfg.KAIntervalUs = u * a
	cfg.KATimeoutUs = u * b
	lim := a
	if b < a {
		lim = b
	}
	n := int(r.between(1, 8))
	inTime := func() int64 {
		// strictly inside min(timeout, interval), never on a grid point
		return r.between(0, lim*10-1)*u/10 + u/30
	}
	for i := 0; i < n; i++ {
		cfg.KAPings = append(cfg.KAPings, KAPing{Kind: "answer", DelayUs: inTime()})
	}
	switch r.weighted(3, 3, 2, 2, 2) {
	case 0:
		cfg.KAPings = append(cfg.KAPings, KAPing{Kind: "never"})
	case 1:
		cfg.KAPings = append(cfg.KAPings, KAPing{Kind: "fail"})
	case 2:
		// answered, but only after the timeout
		cfg.KAPings = append(cfg.KAPings, KAPing{Kind: "answer", DelayUs: u*b + r.between(1, 20)*u/10 + u/30})
	case 3:
		if b > a {
			// in time, but slower than the interval - one to three times in a row (a
			// buffered tick then starts the next ping late)
			for k := 0; k < int(r.between(1, 3)); k++ {
				cfg.KAPings = append(cfg.KAPings, KAPing{Kind: "answer", DelayUs: u*a + r.between(0, (b-a)*10-1)*u/10 + u/30})
			}
			cfg.KAPings = append(cfg.KAPings, KAPing{Kind: "answer", DelayUs: inTime()})
		}
	case 4:
	}
	total := int64(len(cfg.KAPings)+4)*cfg.KAIntervalUs + 3*cfg.KATimeoutUs
	switch r.weighted(5, 3, 1) {
	case 1:
		cfg.KACancelUs = r.between(0, total/u*10)*u/10 + u/3
		cfg.KADeadline = r.chance(0.4)
	case 2:
		cfg.KAPreCancel = true
	}
	sc.HorizonUs = total
	sc.EndUs = total + cfg.KAIntervalUs + cfg.KATimeoutUs
	return sc
}
