package sim

import "fmt"

// genRetryManual drives a bare RetryClient through its Retryer interface by
// hand (SetClient / Connect / Resubscribe / Retry), the way third-party
// wrappers do. One transport at a time; connection k is replaced at t[k+1].
func genRetryManual(r *Rng, prop string) *Scenario {
	sc := &Scenario{}
	cfg := &sc.Cfg
	cfg.Client = "retry"
	cfg.ClientID = "cid"
	cfg.LatC2BUs = r.between(20, 200)
	cfg.LatB2CUs = r.between(20, 200)
	cfg.BrokerMethod = r.pick("A", "B")
	cfg.InitIDs = spacedInitIDs(r, 8)
	cfg.AutoPubRel = true
	cfg.CleanSession = r.chance(0.3)
	if prop == "C02" {
		cfg.CleanSession = false
	}
	cfg.AlwaysResub = r.chance(0.2)
	if r.chance(0.2) {
		cfg.ResponseTimeoutUs = r.pickI(2000, 4000)
	}
	nconn := int(r.between(1, 4))
	period := r.pickI(3000, 6000, 12000)
	// connections
	for k := 1; k <= nconn; k++ {
		t := int64(k-1) * period
		overlap := prop == "C17" && k > 1 && r.chance(0.4)
		if k > 1 && !overlap {
			// the application drops the old transport before installing a new one
			sc.Ops = append(sc.Ops, Op{AtUs: t - 50, Actor: -1, Kind: "close"})
		}
		if overlap {
			// ... or leaves it to the broker (session take-over by the new CONNECT):
			// a message that arrives on the old connection after SetClient installed
			// the new one still belongs to the registered handler
			q := byte(r.IntN(2))
			o := Out{Conn: k - 1, AtUs: t - cfg.LatB2CUs + 8, Kind: "pkt", Pkt: &Pkt{Type: TPublish, Topic: "a/x", QoS: q, Pay: fmt.Sprintf("inold%d", k)}}
			if q > 0 {
				o.Pkt.ID = uint16(200 + k)
			}
			sc.Script = append(sc.Script, o)
		}
		sc.Ops = append(sc.Ops, Op{AtUs: t, Actor: 0, Kind: "setclient"})
		gap := int64(0)
		if r.chance(0.3) {
			gap = r.between(1, 300) // requests may arrive between SetClient and Connect
		}
		sc.Ops = append(sc.Ops, Op{AtUs: t + gap, Actor: 0, Kind: "rconnect"})
		sc.Ops = append(sc.Ops, Op{AtUs: t + gap + 1, Actor: 0, Kind: "afterconnect", Target: len(sc.Ops) - 1})
		if k < nconn {
			// this connection dies some time before it is replaced
			var f Fault
			switch r.weighted(4, 3, 3, 2, 1) {
			case 0:
				f = Fault{Kind: "cutAt", Conn: k, AtUs: t + r.between(200, period-100)}
			case 1:
				f = Fault{Kind: "cutAfter", Conn: k, N: int(r.between(1, 5))}
			case 2:
				f = Fault{Kind: "cutBefore", Conn: k, N: int(r.between(1, 5))}
			case 3:
				f = Fault{Kind: "cutAfterResp", Conn: k, N: int(r.between(1, 5))}
			case 4:
				f = Fault{Kind: "connackRefuse", Conn: k, Code: byte(r.between(1, 5))}
			}
			f.Reset = r.chance(0.3)
			sc.Faults = append(sc.Faults, f)
			if r.chance(0.3) {
				sc.Faults = append(sc.Faults, Fault{Kind: "writeErr", Conn: k, N: int(r.between(1, 5)), Prefix: int(r.between(0, 5))})
			}
		}
	}
	if r.chance(0.3) && nconn > 1 {
		sc.Faults = append(sc.Faults, Fault{Kind: "sessionLoss", Conn: int(r.between(2, int64(nconn)))})
	}
	// requests
	nreq := int(r.between(1, 9))
	total := int64(nconn) * period
	tok := 0
	t := int64(0)
	if r.chance(0.7) {
		t = r.between(0, period)
	}
	for i := 0; i < nreq; i++ {
		t += r.between(0, total/int64(nreq+1))
		op := Op{AtUs: t, Actor: 1}
		switch r.weighted(6, 2, 2) {
		case 0:
			tok++
			op.Kind, op.QoS, op.Topic, op.Token = "publish", byte(r.weighted(2, 4, 4)), topics[r.IntN(len(topics))], fmt.Sprintf("m%d", tok)
			if prop == "C02" {
				op.QoS = 2
			}
		case 1:
			op.Kind, op.Subs = "subscribe", []SubReq{{filters[r.IntN(len(filters))], byte(r.IntN(3))}}
		case 2:
			op.Kind, op.Topics = "unsubscribe", []string{filters[r.IntN(len(filters))]}
		}
		sc.Ops = append(sc.Ops, op)
	}
	if prop == "C17" {
		sc.Ops = append(sc.Ops, Op{AtUs: r.between(0, total), Actor: 2, Kind: "handle", Handler: 1})
		if r.chance(0.5) {
			sc.Ops = append(sc.Ops, Op{AtUs: r.between(0, total), Actor: 2, Kind: "handle", Handler: 2})
		}
		for i := 0; i < int(r.between(1, 4)); i++ {
			q := byte(r.IntN(3))
			o := Out{Conn: int(r.between(1, int64(nconn))), Kind: "pkt", Pkt: &Pkt{Type: TPublish, Topic: "a/x", QoS: q, Pay: fmt.Sprintf("in%d", i)}}
			if q > 0 {
				o.Pkt.ID = uint16(100 + i)
			}
			if r.chance(0.6) {
				o.AfterConnack, o.Glue = true, r.chance(0.5)
				o.DelayUs = r.between(0, 100)
			} else {
				o.AtUs = r.between(0, total)
			}
			sc.Script = append(sc.Script, o)
		}
	}
	if prop == "C17" && r.chance(0.08) {
		// aimed: the application disconnects the retrying client, later gives it
		// another BaseClient and connects that: the registered handler was never
		// taken away, a message arriving on that connection belongs to it
		tD := r.between(1000, period-500)
		q := byte(r.IntN(2))
		in := &Pkt{Type: TPublish, Topic: "a/x", QoS: q, Pay: "inagain"}
		if q > 0 {
			in.ID = 300
		}
		sc.Ops = []Op{
			{AtUs: 0, Actor: 2, Kind: "handle", Handler: 1},
			{AtUs: 10, Actor: 0, Kind: "setclient"},
			{AtUs: 10, Actor: 0, Kind: "rconnect"},
			{AtUs: tD, Actor: 3, Kind: "disconnect"},
			{AtUs: period, Actor: 0, Kind: "setclient"},
			{AtUs: period + r.between(0, 200), Actor: 0, Kind: "rconnect"},
		}
		sc.Faults = nil
		sc.Script = []Out{{Conn: 2, AfterConnack: true, Glue: r.chance(0.5), DelayUs: r.between(0, 100), Kind: "pkt", Pkt: in}}
		total = 2 * period
	}
	sc.HorizonUs = total + 2000
	sc.EndUs = sc.HorizonUs + 40000 + 10*cfg.ResponseTimeoutUs
	return sc
}
