package sim

import (
	"fmt"
)

func checkC13(ix *index, add addFn) {
	if ix.sc.Cfg.Client == "keepalive" {
		checkC13KA(ix, add)
		return
	}
	checkC13Reconn(ix, add)
}

func checkC13KA(ix *index, add addFn) {
	cfg := &ix.sc.Cfg
	interval := cfg.KAIntervalUs * 1000
	timeout := cfg.KATimeoutUs * 1000
	start := int64(-1)
	cancelAt := int64(-1)
	var ret *Rec
	type ping struct {
		n          int
		start, end int64
		kind       string
		delay      int64
		endErr     string
	}
	var pings []*ping
	for i := range ix.tr {
		if i >= ix.end() {
			break
		}
		r := &ix.tr[i]
		switch r.Kind {
		case "kastart":
			start = r.T
		case "kacancel":
			if cancelAt < 0 {
				cancelAt = r.T
				if r.S == "deadline" {
					cancelAt = r.V // announced at setup: the parent context's own deadline
				}
			}
		case "kaping":
			pings = append(pings, &ping{n: r.N, start: r.T, end: -1, kind: r.S, delay: r.V * 1000})
		case "kapingret":
			for _, p := range pings {
				if p.n == r.N {
					p.end, p.endErr = r.T, r.Err
				}
			}
		case "karet":
			if ret == nil {
				ret = r
			}
		}
	}
	if start < 0 {
		return
	}
	// walk the pings as long as everything is healthy
	healthy := true // every ping so far answered within min(timeout, interval)
	for k, p := range pings {
		cancelled := cancelAt >= 0 && cancelAt <= p.start
		if cancelled {
			break
		}
		if healthy {
			want := start + int64(k+1)*interval
			if p.start != want {
				add("cadence", fmt.Sprintf("ping %d started at t=%dns, expected start+%d*interval = %dns", k, p.start, k+1, want), nil)
				return
			}
		}
		if ret != nil && ret.T < p.start {
			break
		}
		answeredInTime := p.kind == "answer" && p.delay < timeout
		cancelDuring := cancelAt >= 0 && cancelAt > p.start && (cancelAt < p.start+p.delay || p.kind == "never") && cancelAt < p.start+timeout
		if cancelDuring {
			break
		}
		switch {
		case p.kind == "fail":
			if ret == nil || ret.T != p.start || !ret.B {
				add("ping-error", fmt.Sprintf("ping %d failed immediately; KeepAlive should return that error at once (ret=%v)", k, retStr(ret)), nil)
			}
			return
		case !answeredInTime:
			if ret == nil || ret.T != p.start+timeout || !hasCls(ret.Cls, "pingtimeout") {
				add("timeout", fmt.Sprintf("ping %d unanswered within the timeout; KeepAlive should return ErrPingTimeout at t=%dns (ret=%v)", k, p.start+timeout, retStr(ret)), nil)
			}
			return
		default:
			// answered in time: must keep running
			if ret != nil && ret.T <= p.start+p.delay && (cancelAt < 0 || cancelAt > ret.T) {
				add("cadence", fmt.Sprintf("KeepAlive returned (%s) although ping %d was answered in time", retStr(ret), k), nil)
				return
			}
			if p.delay >= interval {
				healthy = false // ticks may have been dropped: only "keeps running" is demanded
			}
		}
	}
	if cancelAt >= 0 && ix.complete {
		// stops with the context's error, not with a timeout
		if ret == nil {
			add("ctx", "parent context cancelled but KeepAlive had not returned when the run was judged", nil)
			return
		}
		wantCls := "canceled"
		if cfg.KADeadline {
			wantCls = "deadline"
		}
		if ret.T >= cancelAt && (!hasCls(ret.Cls, wantCls) || hasCls(ret.Cls, "pingtimeout")) {
			add("ctx", fmt.Sprintf("parent context cancelled at t=%dns; KeepAlive returned %s", cancelAt, retStr(ret)), nil)
		}
		return
	}
	if ret != nil && cancelAt < 0 {
		// a return must have been justified by a ping above
		justified := false
		for _, p := range pings {
			if p.kind == "fail" || p.kind == "never" || p.delay >= timeout {
				justified = true
			}
		}
		if !justified {
			add("cadence", fmt.Sprintf("KeepAlive returned (%s) although every ping was answered in time", retStr(ret)), nil)
		}
	}
	if ret == nil && ix.complete && cancelAt < 0 {
		// still running: there must have been pings up to the end of the script
		if len(pings) < len(cfg.KAPings) {
			add("cadence", fmt.Sprintf("only %d pings were sent, the healthy script has %d", len(pings), len(cfg.KAPings)), nil)
		}
	}
}

func retStr(r *Rec) string {
	if r == nil {
		return "<not returned>"
	}
	return fmt.Sprintf("t=%dns err=%q", r.T, r.Err)
}

// checkC13Reconn: the reconnecting client closes a silent connection and only a silent one.
func checkC13Reconn(ix *index, add addFn) {
	cfg := &ix.sc.Cfg
	if cfg.Client != "reconnect" || cfg.PingIntervalUs == 0 {
		return
	}
	timeout := cfg.TimeoutUs
	if timeout == 0 {
		timeout = cfg.PingIntervalUs
	}
	conns := ix.connInfos()
	// per connection: was a ping left unanswered for longer than the timeout?
	type pstate struct {
		lost      bool
		late      bool
		selfClose int // trace index of a client-side close while the peer was still up
	}
	ps := map[int]*pstate{}
	get := func(k int) *pstate {
		if ps[k] == nil {
			ps[k] = &pstate{selfClose: -1}
		}
		return ps[k]
	}
	pendingPing := map[int][]int64{} // per connection, oldest first: PINGRESPs answer PINGREQs in order
	for i := range ix.tr {
		if i >= ix.end() {
			break
		}
		r := &ix.tr[i]
		switch r.Kind {
		case "tx":
			if r.P.Type == TPingReq {
				pendingPing[r.Conn] = append(pendingPing[r.Conn], r.T)
			}
		case "rx":
			if r.P != nil && r.P.Type == TPingResp {
				if q := pendingPing[r.Conn]; len(q) > 0 {
					if r.T-q[0] >= timeout*1000 {
						get(r.Conn).late = true
					}
					pendingPing[r.Conn] = q[1:]
				}
			}
		case "dropc2b", "dropb2c", "lostc2b", "lostb2c":
			if r.P != nil && (r.P.Type == TPingReq || r.P.Type == TPingResp) {
				get(r.Conn).lost = true
			}
		case "close":
			if r.V == 0 && get(r.Conn).selfClose < 0 {
				get(r.Conn).selfClose = i
			}
		}
	}
	// a half-dead link: the keep-alive's own PINGREQ cannot be written and the
	// read side says nothing. No application Ping in the scenario, so a PINGREQ
	// is the keep-alive's.
	appPing := false
	for _, op := range ix.sc.Ops {
		if op.Kind == "ping" {
			appPing = true
		}
	}
	if !appPing && ix.complete && ix.discAt < 0 {
		for i := range ix.tr {
			if i >= ix.end() {
				break
			}
			r := &ix.tr[i]
			if r.Kind != "txfail" || r.P == nil || r.P.Type != TPingReq {
				continue
			}
			half := false
			for _, f := range ix.sc.Faults {
				if f.Kind == "writeErr" && f.Conn == r.Conn && f.Code == 2 {
					half = true
				}
			}
			c := conns[r.Conn]
			if !half || c == nil || !c.accepted {
				continue
			}
			if c.endAt < 0 {
				add("closes-silent", fmt.Sprintf("conn %d: the keep-alive's PINGREQ could not be written (half-dead link, read side silent) and the client never closed the connection", r.Conn), map[string]string{"kind": "half-dead"})
			} else if conns[r.Conn+1] == nil {
				add("closes-silent", fmt.Sprintf("conn %d was closed after the keep-alive's PINGREQ could not be written but no new dial followed", r.Conn), map[string]string{"kind": "half-dead"})
			}
			break
		}
	}
	for k, c := range conns {
		p := get(k)
		if !c.accepted || c.activeAt < 0 {
			continue
		}
		silentDrop := false
		for i := range ix.tr {
			r := &ix.tr[i]
			if (r.Kind == "dropc2b" || r.Kind == "dropb2c") && r.Conn == k && r.S == "silent" && r.P != nil && (r.P.Type == TPingReq || r.P.Type == TPingResp) {
				silentDrop = true
			}
		}
		if silentDrop && ix.complete && ix.discAt < 0 {
			if c.endAt < 0 {
				add("closes-silent", fmt.Sprintf("conn %d: a PINGREQ went unanswered but the client never closed the connection", k), nil)
				continue
			}
			// ... no later than the timeout of the first keep-alive ping that went
			// unanswered (exact on the fake clock; not with parked sites)
			if len(cfg.Yields) == 0 && !otherEnding(ix, k) {
				// PINGRESPs answer PINGREQs in order: with m responses received
				// the first m requests were answered; the first keep-alive
				// request after those is the one whose timeout must close.
				firstLost := int64(-1)
				m := 0
				for i := range ix.tr {
					if r := &ix.tr[i]; r.Kind == "rx" && r.Conn == k && r.P != nil && r.P.Type == TPingResp {
						m++
					}
				}
				n := 0
				for _, j := range ix.tx {
					if ix.tr[j].Conn != k || ix.tr[j].P.Type != TPingReq {
						continue
					}
					n++
					if n > m && isKeepAlivePing(ix, j) {
						firstLost = ix.tr[j].T
						break
					}
				}
				if firstLost >= 0 && ix.tr[c.endAt].T > firstLost+timeout*1000 {
					add("closes-silent", fmt.Sprintf("conn %d: the keep-alive ping sent at t=%dns was never answered, the connection was closed %dns after its timeout", k, firstLost, ix.tr[c.endAt].T-firstLost-timeout*1000), map[string]string{"kind": "late"})
				}
			}
			// closed by the keep-alive: the error reported with Closed is ErrPingTimeout
			if ix.tr[c.endAt].Kind == "close" && ix.tr[c.endAt].V == 0 {
				for i := range ix.tr {
					if i >= ix.end() {
						break
					}
					q := &ix.tr[i]
					if q.Kind == "state" && q.Conn == k && q.S == "Closed" && !hasCls(q.Cls, "pingtimeout") && !otherEnding(ix, k) {
						add("closes-silent", fmt.Sprintf("conn %d was closed for a silent peer but Closed carries %q, not ErrPingTimeout", k, q.Err), map[string]string{"kind": "error-identity"})
					}
				}
			}
			// a new dial must follow
			redial := false
			for k2, c2 := range conns {
				if k2 > k && c2.dialAt > c.endAt {
					redial = true
				}
			}
			if !redial {
				add("closes-silent", fmt.Sprintf("conn %d was closed after the silent period but no new dial followed", k), nil)
			}
		}
		// a peer that went silent is detected whatever else the client is doing:
		// by one interval (the next tick) plus the timeout, with one more interval
		// of slack for a ping that was in flight - also if the client, busy
		// sending, never got round to pinging at all
		if cfg.PingIntervalUs > 0 && len(cfg.Yields) == 0 && ix.complete && ix.discAt < 0 && !otherEnding(ix, k) {
			for i := range ix.tr {
				r := &ix.tr[i]
				if r.Kind != "silent" || r.Conn != k || i < c.activeAt {
					continue
				}
				deadline := r.T + (2*cfg.PingIntervalUs+timeout)*1000
				if deadline+1000000 >= ix.sc.HorizonUs*1000 {
					break // silence ends at the horizon
				}
				if c.endAt < 0 || ix.tr[c.endAt].T > deadline {
					add("closes-silent", fmt.Sprintf("conn %d: the peer went silent at t=%dns; the connection was not closed within two intervals plus the timeout", k, r.T), map[string]string{"kind": "unpinged"})
				}
				break
			}
		}
		if !p.lost && !p.late && !silentDrop {
			// healthy as far as keep-alive is concerned: no ErrPingTimeout may appear for it
			for i := range ix.tr {
				if i >= ix.end() {
					break
				}
				r := &ix.tr[i]
				if (r.Kind == "state" || r.Kind == "sample") && r.Conn == k && hasCls(r.Cls, "pingtimeout") {
					// an unanswered ping still pending when the peer cut the link is not "answered"
					add("only-silent", fmt.Sprintf("conn %d: ErrPingTimeout reported although every PINGREQ was answered within the timeout", k), nil)
					break
				}
			}
		}
	}
}

// otherEnding: something besides the keep-alive can have ended connection k
// (response timeout, application Close, Disconnect, write error).
func otherEnding(ix *index, k int) bool {
	if ix.sc.Cfg.ResponseTimeoutUs != 0 || ix.discAt >= 0 {
		return true
	}
	for i := range ix.tr {
		r := &ix.tr[i]
		if r.Kind == "cause" && r.S == "localclose" {
			return true
		}
		if r.Kind == "write" && r.Conn == k && r.Err != "" && r.Err != ErrSimClosed.Error() {
			return true
		}
	}
	return false
}

// isKeepAlivePing: a PINGREQ that was not written by an application ping op
// (those are logged between the op's inv and ret in the same step).
func isKeepAlivePing(ix *index, txIdx int) bool {
	for k, op := range ix.sc.Ops {
		if op.Kind != "ping" {
			continue
		}
		o := ix.ops[k]
		if o.inv >= 0 && o.inv < txIdx && (o.ret < 0 || o.ret > txIdx) && ix.tr[o.inv].T == ix.tr[txIdx].T {
			return false
		}
	}
	return true
}
