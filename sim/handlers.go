package sim

import mqtt "github.com/at-wat/mqtt-go"

func (s *Sim) muxHandler(h int) mqtt.Handler { return nil }
