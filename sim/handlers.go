package sim

import (
	"fmt"
	"strings"
	"time"

	mqtt "github.com/at-wat/mqtt-go"
)

// C20 topology: BaseClient.Handle(ServeMux{registrations...}), some of them
// wrapped in ServeAsync. Every handler records what it received, parks,
// checks again, scribbles over everything it was given, parks and re-reads.

func scribbleOf(idx int, orig *Pkt) *Pkt {
	return &Pkt{
		Type:   TPublish,
		Topic:  fmt.Sprintf("scribble-%d", idx),
		Pay:    strings.Repeat(string(rune('A'+idx)), len(orig.Pay)) + "Z",
		QoS:    (orig.QoS + 1) % 3,
		Retain: !orig.Retain,
		Dup:    !orig.Dup,
		ID:     orig.ID + 1000 + uint16(idx),
	}
}

func (s *Sim) scribbler(idx int, parkUs int64, retain bool) mqtt.Handler {
	work := s.scribbleWork(idx, parkUs)
	if retain {
		// the handler hands its message to a worker of its own and returns
		return mqtt.HandlerFunc(func(m *mqtt.Message) {
			s.log(Rec{Kind: "hretain", V: int64(idx), P: msgPkt(m), S: tokenOf(string(m.Payload))})
			go work(m)
		})
	}
	return mqtt.HandlerFunc(work)
}

func (s *Sim) scribbleWork(idx int, parkUs int64) func(m *mqtt.Message) {
	return func(m *mqtt.Message) {
		entry := msgPkt(m)
		tok := tokenOf(entry.Pay)
		s.log(Rec{Kind: "hin", V: int64(idx), P: entry, S: tok})
		if parkUs > 0 && !s.race {
			time.Sleep(time.Duration(parkUs) * time.Microsecond)
		} else if s.race {
			runtimeGosched()
		}
		// still what was received?
		s.log(Rec{Kind: "hmid", V: int64(idx), P: msgPkt(m), S: tok})
		want := scribbleOf(idx, entry)
		for i := range m.Payload {
			m.Payload[i] = byte('A' + idx)
		}
		m.Payload = append(m.Payload, 'Z')
		m.Topic = want.Topic
		m.QoS = mqtt.QoS(want.QoS)
		m.Retain = want.Retain
		m.Dup = want.Dup
		m.ID = want.ID
		if parkUs > 0 && !s.race {
			time.Sleep(time.Duration(parkUs/2+1) * time.Microsecond)
		} else if s.race {
			runtimeGosched()
		}
		s.log(Rec{Kind: "hout", V: int64(idx), P: msgPkt(m), S: tok})
	}
}

// embMux / embAsync: application types that embed the library's multiplexer /
// asynchronous wrapper (and so inherit their method sets) but serve the
// message themselves, rewriting it, before delegating.
type embMux struct {
	*mqtt.ServeMux
	work func(*mqtt.Message)
}

func (e *embMux) Serve(m *mqtt.Message) {
	e.work(m)
	e.ServeMux.Serve(m)
}

type embAsync struct {
	mqtt.ServeAsync
	work func(*mqtt.Message)
}

func (e *embAsync) Serve(m *mqtt.Message) { e.work(m) }

func (s *Sim) muxHandler(h int) mqtt.Handler {
	s.mu.Lock()
	if s.mux != nil {
		m := s.mux
		s.mu.Unlock()
		return m
	}
	s.mu.Unlock()
	mux := &mqtt.ServeMux{}
	for i, reg := range s.sc.Cfg.Mux {
		var hd mqtt.Handler = s.scribbler(i, reg.ParkUs, reg.Retain)
		if reg.Async {
			hd = &mqtt.ServeAsync{Handler: hd}
		}
		switch reg.Embed {
		case "mux":
			hd = &embMux{ServeMux: &mqtt.ServeMux{}, work: s.scribbleWork(i, reg.ParkUs)}
		case "async":
			hd = &embAsync{ServeAsync: mqtt.ServeAsync{Handler: mqtt.HandlerFunc(func(*mqtt.Message) {})}, work: s.scribbleWork(i, reg.ParkUs)}
		}
		if err := mux.Handle(reg.Filter, hd); err != nil {
			s.log(Rec{Kind: "muxerr", S: reg.Filter, Err: err.Error()})
		}
	}
	var out mqtt.Handler = mux
	if s.sc.Cfg.MuxAsyncOuter {
		out = &mqtt.ServeAsync{Handler: mux}
	}
	s.mu.Lock()
	s.mux = out
	s.mu.Unlock()
	return out
}

// muxServe: an application goroutine calls the mux directly with its own
// message, then reuses that message.
func (s *Sim) muxServe(i int, op *Op) {
	h := s.muxHandler(1)
	pay := s.payload(op)
	if op.Repeat > 0 {
		// a payload built in a reusable buffer: spare capacity behind the data
		buf := make([]byte, len(pay), len(pay)*op.Repeat+16)
		copy(buf, pay)
		pay = buf
	}
	m := &mqtt.Message{Topic: unescapeTopic(op.Topic), QoS: mqtt.QoS(op.QoS), Retain: op.Retain, Payload: pay, ID: op.PresetID}
	before := msgPkt(m)
	s.log(Rec{Kind: "caller", Op: i + 1, S: "before", P: before})
	h.Serve(m)
	s.log(Rec{Kind: "caller", Op: i + 1, S: "after-serve", P: msgPkt(m)})
	if op.CtxTimeoutUs > 0 && !s.race {
		time.Sleep(time.Duration(op.CtxTimeoutUs) * time.Microsecond)
	}
	s.log(Rec{Kind: "caller", Op: i + 1, S: "later", P: msgPkt(m)})
	// the caller reuses its message
	for j := range m.Payload {
		m.Payload[j] = '#'
	}
	m.Topic = "reused"
	s.log(Rec{Kind: "caller", Op: i + 1, S: "reused"})
}

func genC20(r *Rng) *Scenario {
	sc := &Scenario{Cfg: baseCfg(r)}
	cfg := &sc.Cfg
	cfg.HoldAcks = false
	fs := []string{"a/x", "a/+", "#", "+/x", "a/#", "b", "+", "a/b/#", "+/+/#", "a/x/#", "a/+/y", "+/+", "a/x/y/#"}
	n := int(r.between(1, 4))
	for i := 0; i < n; i++ {
		reg := MuxReg{Filter: fs[r.IntN(len(fs))], Async: r.chance(0.4)}
		if r.chance(0.7) {
			reg.ParkUs = r.between(1, 400)
		}
		if r.chance(0.12) {
			reg.Embed, reg.Async = r.pick("mux", "async"), false
		}
		if !reg.Async && reg.Embed == "" && r.chance(0.3) {
			reg.Retain = true
			if reg.ParkUs == 0 {
				reg.ParkUs = r.between(1, 400)
			}
		}
		cfg.Mux = append(cfg.Mux, reg)
	}
	cfg.MuxAsyncOuter = r.chance(0.2)
	if r.chance(0.4) {
		cfg.Frag = []int{int(r.between(1, 5))}
	}
	sc.Ops = append(sc.Ops, Op{AtUs: 0, Actor: 1, Kind: "handle", Handler: 1})
	sc.Ops = append(sc.Ops, Op{AtUs: 1, Actor: 0, Kind: "connect"})
	t := rtt(cfg) + 10
	k := int(r.between(1, 6))
	tps := []string{"a/x", "a", "b", "a/x/y", "c/x", "a/b", "a/b/c", "x", "a/x/y/z"}
	for i := 0; i < k; i++ {
		if r.chance(0.6) {
			t += r.between(0, 300)
		}
		if r.chance(0.25) {
			op := Op{AtUs: t, Actor: 5 + i, Kind: "muxserve", Topic: tps[r.IntN(len(tps))], Token: fmt.Sprintf("dm%d", i), QoS: byte(r.IntN(3)), Retain: r.chance(0.3), PayLen: int(r.between(0, 12)), CtxTimeoutUs: r.between(0, 500)}
			if r.chance(0.3) {
				op.PayLen = int(r.pickI(15, 16, 17, 31, 32, 33, 63, 64, 65, 127, 128, 129, 255, 256, 257, 1024)) // around the sizes an implementation may special-case
			}
			if r.chance(0.15) {
				// a topic that is not valid UTF-8 (the application's own message, never parsed from the wire)
				// (written with %XX escapes: scenarios travel as JSON, which would
				// replace the invalid bytes)
				op.Topic = []string{"a/%FF", "caf%E9/x", "a/%C3", "%F0%9F/x"}[r.IntN(4)]
			}
			if r.chance(0.5) {
				op.Repeat = int(r.between(2, 6)) // capacity factor of the caller's buffer
			}
			if op.QoS > 0 || r.chance(0.4) {
				// (also for QoS 0: BaseClient.Publish fills the ID of every message, and
				// the application dispatches that struct through its own mux)
				op.PresetID = uint16(r.between(1, 500))
			}
			sc.Ops = append(sc.Ops, op)
			continue
		}
		q := byte(r.IntN(2))
		pad := r.IntN(10)
		if r.chance(0.3) {
			pad = 0 // tiny packets (a body of 8 bytes or less with a one-level topic)
		} else if r.chance(0.2) {
			pad = int(r.pickI(11, 27, 59, 60, 61, 123, 251)) // payload sizes around 16 / 32 / 64 / 128 / 256
		}
		p := &Pkt{Type: TPublish, QoS: q, Topic: tps[r.IntN(len(tps))], Pay: fmt.Sprintf("in%d.%s", i, strings.Repeat("p", pad)), Retain: r.chance(0.3), Dup: q > 0 && r.chance(0.3)}
		if q > 0 {
			p.ID = uint16(10 + i)
		}
		sc.Script = append(sc.Script, Out{Conn: 1, AtUs: t, Kind: "pkt", Pkt: p})
	}
	sc.HorizonUs = t + 5000
	sc.EndUs = sc.HorizonUs + 5000
	return sc
}

func checkC20(ix *index, add addFn) {
	// originals by token
	orig := map[string]*Pkt{}
	for _, i := range ix.rx {
		r := &ix.tr[i]
		if r.P != nil && r.P.Type == TPublish {
			orig[tokenOf(r.P.Pay)] = r.P
		}
	}
	for i := range ix.tr {
		r := &ix.tr[i]
		if r.Kind == "caller" && r.S == "before" {
			orig[tokenOf(r.P.Pay)] = r.P
		}
	}
	eq := func(a, b *Pkt) bool {
		return a.Topic == b.Topic && a.Pay == b.Pay && a.QoS == b.QoS && a.Retain == b.Retain && a.Dup == b.Dup && a.ID == b.ID
	}
	entry := map[string]*Pkt{} // idx/token -> entry snapshot
	for i := range ix.tr {
		r := &ix.tr[i]
		key := fmt.Sprintf("%d/%s", r.V, r.S)
		switch r.Kind {
		case "hin":
			o := orig[r.S]
			if o == nil {
				add("equal", fmt.Sprintf("handler %d received a message %q nobody sent", r.V, r.P.Pay), nil)
				continue
			}
			entry[key] = r.P
			if !eq(o, r.P) {
				add("equal", fmt.Sprintf("handler %d received %s, the message is %s", r.V, r.P, o), nil)
			}
		case "hmid":
			if e := entry[key]; e != nil && !eq(e, r.P) {
				add("private", fmt.Sprintf("handler %d: its message changed under it while it was parked: %s -> %s", r.V, e, r.P), map[string]string{"when": "before-own-scribble"})
			}
		case "hout":
			if e := entry[key]; e != nil {
				want := scribbleOf(int(r.V), e)
				if !eq(want, r.P) {
					add("private", fmt.Sprintf("handler %d: re-reading its own message after all scribbling shows %s, it wrote %s", r.V, r.P, want), map[string]string{"when": "after-own-scribble"})
				}
			}
		case "caller":
			if r.S == "after-serve" || r.S == "later" {
				var o *Pkt
				for j := i; j >= 0; j-- {
					if ix.tr[j].Kind == "caller" && ix.tr[j].Op == r.Op && ix.tr[j].S == "before" {
						o = ix.tr[j].P
						break
					}
				}
				if o != nil && !eq(o, r.P) {
					add("private", fmt.Sprintf("the caller's message changed (%s): %s -> %s", r.S, o, r.P), map[string]string{"when": "caller"})
				}
			}
		}
	}
}

// unescapeTopic turns %XX escapes into raw bytes (topics that are not valid UTF-8).
func unescapeTopic(t string) string {
	if !strings.Contains(t, "%") {
		return t
	}
	var b []byte
	for i := 0; i < len(t); i++ {
		if t[i] == '%' && i+2 < len(t)+0 && i+2 <= len(t)-1+0 {
			var v byte
			if _, err := fmt.Sscanf(t[i+1:i+3], "%02X", &v); err == nil {
				b = append(b, v)
				i += 2
				continue
			}
		}
		b = append(b, t[i])
	}
	return string(b)
}
