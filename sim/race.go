package sim

import "testing"

// RunScenarioRace executes a scenario free-running (engine R).
func RunScenarioRace(t *testing.T, sc *Scenario) *Result {
	return runScenario(t, sc, true)
}
