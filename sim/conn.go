package sim

import (
	"context"
	"errors"
	"fmt"
	"io"
	"net"
	"runtime"
	"sync"
	"syscall"
	"time"

	mqtt "github.com/at-wat/mqtt-go"
)

func runtimeGosched() { runtime.Gosched() }

// spinRealMicros busy-waits on the real clock (time.Now is fake in a bubble).
func spinRealMicros(us int64) {
	var tv syscall.Timeval
	syscall.Gettimeofday(&tv)
	start := tv.Sec*1000000 + int64(tv.Usec)
	for {
		runtime.Gosched()
		syscall.Gettimeofday(&tv)
		if tv.Sec*1000000+int64(tv.Usec)-start >= us {
			return
		}
	}
}

// Errors returned by the simulated transport.
// Like real transports they wrap the standard sentinels a caller may look for
// (net.ErrClosed after a local Close, ECONNRESET, EPIPE).
var (
	ErrSimReset  = fmt.Errorf("simnet: connection reset by peer (%w)", syscall.ECONNRESET)
	ErrSimClosed = fmt.Errorf("simnet: %w", net.ErrClosed)
	ErrSimWrite  = errors.New("simnet: injected write error")
	// ErrSimCloseFail: Close() did close, and reports a failure of its own
	ErrSimCloseFail = errors.New("simnet: close: could not notify the peer")
	ErrSimDial      = errors.New("simnet: injected dial error")
	ErrSimBroken    = fmt.Errorf("simnet: broken pipe (%w)", syscall.EPIPE)
	// ErrSimWriteEOF wraps io.EOF: it is not io.EOF itself and must be treated as
	// any other transport error
	ErrSimWriteEOF = fmt.Errorf("simnet: injected write error (%w)", io.EOF)
	// ErrSimLookalike: a transport's own error that merely has the type and the
	// text of a library sentinel; it is not that sentinel
	ErrSimLookalike = errors.New(mqtt.ErrClosedTransport.Error())
)

// Conn is the simulated transport of one connection.
type Conn struct {
	s *Sim
	k int

	mu   sync.Mutex
	cond *sync.Cond

	rbuf        []byte
	peerClosed  int // 0 open, 1 FIN (EOF after buffered data), 2 reset
	localClosed bool
	earlyNow    bool // inside Transport.Write in early-reply mode: answers are delivered inline
	closeCalls  int
	wbuf        []byte
	nC2B        int
	nB2C        int
	nWrites     int
	silent      bool
	writeDead   bool
	readers     int
	maxReadReq  int
	gotConnect  bool
	brokerGone  bool // broker closed its side / discarded the connection
	connecting  bool // a Connect on this transport is in progress (harness view)
	activeCB    bool // the Active state callback is running (Connect still holds its lock)
	fragIdx     int
	dropped     map[int]bool // b2c packets swallowed by a silent period
	busyUntil   int64        // b2c stream: fake time (ns) until which earlier packets occupy the stream
	sendMu      sync.Mutex   // engine R: one packet's fragments are contiguous
	jitIdx      int
}

func (c *Conn) alive() bool {
	c.mu.Lock()
	defer c.mu.Unlock()
	return c.peerClosed == 0 && !c.localClosed
}

func (c *Conn) ended() bool { return !c.alive() }

func (c *Conn) setSilent() {
	c.mu.Lock()
	c.silent = true
	c.mu.Unlock()
	c.s.log(Rec{Kind: "silent", Conn: c.k})
}

func (c *Conn) endSilence() {
	c.mu.Lock()
	was := c.silent
	c.silent = false
	c.mu.Unlock()
	if was {
		c.s.log(Rec{Kind: "silence-ends", Conn: c.k})
	}
}

// exemptFromSilence: without a connect timeout nothing obliges a client to
// leave a connection whose CONNECT is never answered; the silent period then
// starts after the CONNECT/CONNACK exchange.
func (c *Conn) exemptFromSilence(p *Pkt) bool {
	if p != nil && c.s.sc.Cfg.DeafToPings && p.Type != TPingReq && p.Type != TPingResp {
		return true
	}
	if p == nil || c.s.sc.Cfg.TimeoutUs != 0 {
		return false
	}
	return p.Type == TConnect || p.Type == TConnAck
}

func (c *Conn) isSilent() bool {
	c.mu.Lock()
	defer c.mu.Unlock()
	return c.silent
}

// cut ends the connection from the network/broker side.
func (c *Conn) cut(reset bool, why string) {
	c.mu.Lock()
	if c.peerClosed != 0 || c.localClosed {
		c.mu.Unlock()
		return
	}
	c.mu.Unlock()
	kind := "eof"
	if reset {
		kind = "reset"
	}
	// record first, then make it visible to the client (see releasePart)
	c.s.log(Rec{Kind: "cut", Conn: c.k, S: kind, Err: why})
	c.mu.Lock()
	if reset {
		c.peerClosed = 2
		c.rbuf = nil
	} else {
		c.peerClosed = 1
	}
	c.cond.Broadcast()
	c.mu.Unlock()
	c.s.broker.connGone(c)
}

// Read implements io.Reader for the library's reader goroutine.
func (c *Conn) Read(p []byte) (int, error) {
	c.mu.Lock()
	defer c.mu.Unlock()
	if len(p) > c.maxReadReq {
		c.maxReadReq = len(p)
	}
	c.readers++
	defer func() { c.readers-- }()
	for {
		if c.localClosed {
			return 0, ErrSimClosed
		}
		if c.peerClosed == 2 {
			return 0, ErrSimReset
		}
		if len(c.rbuf) > 0 {
			n := copy(p, c.rbuf)
			c.rbuf = c.rbuf[n:]
			return n, nil
		}
		if c.peerClosed == 1 {
			return 0, io.EOF
		}
		if len(p) == 0 {
			return 0, nil
		}
		c.cond.Wait()
	}
}

// logAttempt records the packet a failed Write call tried to transmit.
func (c *Conn) logAttempt(p []byte, why string) {
	n, first, body, err := Frame(p)
	if err != nil || n == 0 {
		return
	}
	pkt, err := DecodeC2B(first, body)
	if err != nil {
		return
	}
	c.s.log(Rec{Kind: "txfail", Conn: c.k, P: pkt, Err: why})
}

// Write implements io.Writer. It never parks (see DESIGN 3.3), except for the
// writeStall fault in scenarios without a second writer.
func (c *Conn) Write(p []byte) (int, error) {
	s := c.s
	c.mu.Lock()
	w := c.nWrites
	c.nWrites++
	if c.localClosed {
		c.mu.Unlock()
		s.log(Rec{Kind: "write", Conn: c.k, N: w, V: int64(len(p)), Err: ErrSimClosed.Error()})
		c.logAttempt(p, ErrSimClosed.Error())
		return 0, ErrSimClosed
	}
	if c.peerClosed != 0 || c.writeDead {
		c.mu.Unlock()
		s.log(Rec{Kind: "write", Conn: c.k, N: w, V: int64(len(p)), Err: ErrSimBroken.Error()})
		c.logAttempt(p, ErrSimBroken.Error())
		return 0, ErrSimBroken
	}
	if f := s.faultAt("writeStall", c.k, w); f != nil {
		// a peer that stopped reading: this Write stays blocked until the
		// connection is ended by either side. Only used by scenarios in which no
		// other writer exists while it lasts (a goroutine queueing on the library's
		// write lock is not durably blocked, see DESIGN 3.3).
		s.fire("writeStall")
		c.mu.Unlock()
		s.log(Rec{Kind: "wstall", Conn: c.k, N: w})
		c.mu.Lock()
		for !c.localClosed && c.peerClosed == 0 {
			c.cond.Wait()
		}
		werr := ErrSimBroken
		if c.localClosed {
			werr = ErrSimClosed
		}
		c.mu.Unlock()
		s.log(Rec{Kind: "write", Conn: c.k, N: w, V: int64(len(p)), Err: werr.Error()})
		c.logAttempt(p, werr.Error())
		return 0, werr
	}
	if f := s.faultAt("writeErr", c.k, w); f != nil {
		pre := f.Prefix
		if pre >= len(p) {
			pre = len(p) - 1
		}
		if pre < 0 {
			pre = 0
		}
		c.wbuf = append(c.wbuf, p[:pre]...)
		c.writeDead = true
		c.mu.Unlock()
		s.fire("writeErr")
		werr := ErrSimWrite
		if f.Code == 1 {
			werr = ErrSimWriteEOF
		}
		if f.Code == 3 {
			werr = ErrSimLookalike
		}
		s.log(Rec{Kind: "write", Conn: c.k, N: w, V: int64(len(p)), Err: werr.Error(), S: fmt.Sprintf("prefix=%d", pre), B: true})
		c.logAttempt(p, werr.Error())
		if f.Code == 2 {
			// half-dead link: every write fails from now on, the read side stays
			// silent; only the client can end this connection
			s.probe("half-dead-link")
			return pre, werr
		}
		// the link is dead: the peer will see the connection go away shortly
		s.after(us(s.sc.Cfg.LatC2BUs), "writeErr-cut", func() { c.cut(true, "writeErr") })
		return pre, werr
	}
	if s.race && len(p) > 1 {
		// copy the packet to the wire in two halves with a yield in between: two
		// writers that the library does not exclude from each other produce an
		// interleaved byte stream, which the framer below rejects
		h := len(p) / 2
		c.wbuf = append(c.wbuf, p[:h]...)
		c.mu.Unlock()
		runtimeGosched()
		c.mu.Lock()
		c.wbuf = append(c.wbuf, p[h:]...)
	} else {
		c.wbuf = append(c.wbuf, p...)
	}
	type framed struct {
		n     int
		first byte
		body  []byte
	}
	var pk []framed
	var ferr error
	for {
		n, first, body, err := Frame(c.wbuf)
		if err != nil {
			ferr = err
			break
		}
		if n == 0 {
			break
		}
		pk = append(pk, framed{c.nC2B, first, append([]byte{}, body...)})
		c.nC2B++
		c.wbuf = c.wbuf[n:]
	}
	partial := len(c.wbuf)
	c.mu.Unlock()
	if s.race {
		runtimeGosched()
		if len(p) >= 2048 {
			// keep the transport busy for a while (real time): goroutines queueing
			// for the library's write lock then wait long enough for sync.Mutex to
			// hand the lock over directly, so a writer that releases the lock in the
			// middle of a packet really loses it
			spinRealMicros(300)
		}
	}
	s.log(Rec{Kind: "write", Conn: c.k, N: w, V: int64(len(p))})
	if ferr != nil {
		s.log(Rec{Kind: "txbad", Conn: c.k, S: ferr.Error()})
	}
	if partial > 0 && len(pk) == 0 {
		s.probe("partial-write")
	}
	for _, f := range pk {
		pkt, err := DecodeC2B(f.first, f.body)
		if err != nil {
			s.log(Rec{Kind: "txbad", Conn: c.k, N: f.n, S: err.Error()})
			continue
		}
		f := f
		s.log(Rec{Kind: "tx", Conn: c.k, N: f.n, P: pkt})
		if s.sc.Cfg.EarlyReply && !s.race {
			// a very fast peer: the answer is readable before Write returns and the
			// reader goroutine gets to run before the writer goes on. Faults
			// addressed to this packet / its answers apply as usual.
			c.mu.Lock()
			c.earlyNow = true
			c.mu.Unlock()
			s.broker.process(c, f.n, pkt)
			c.mu.Lock()
			c.earlyNow = false
			c.mu.Unlock()
			s.probe("early-reply")
			time.Sleep(time.Nanosecond)
			continue
		}
		if s.race {
			s.broker.process(c, f.n, pkt)
			continue
		}
		s.after(us(s.sc.Cfg.LatC2BUs), "bproc", func() { s.broker.process(c, f.n, pkt) })
	}
	return len(p), nil
}

// Close implements io.Closer (client side close).
func (c *Conn) Close() error {
	c.mu.Lock()
	already := c.localClosed
	c.mu.Unlock()
	defer func() {
		if !already {
			c.s.yield("app.transportClose") // a Close() that takes its time to return
		}
	}()
	c.mu.Lock()
	c.closeCalls++
	first := !c.localClosed
	wasPeer := c.peerClosed
	c.localClosed = true
	c.cond.Broadcast()
	c.mu.Unlock()
	if first {
		c.s.log(Rec{Kind: "close", Conn: c.k, V: int64(wasPeer)})
		// the broker notices the FIN after everything written before it
		if c.s.race {
			c.s.broker.connGone(c)
		} else {
			c.s.after(us(c.s.sc.Cfg.LatC2BUs), "close-seen", func() { c.s.broker.connGone(c) })
		}
		if c.s.sc.Cfg.CloseErr {
			return ErrSimCloseFail
		}
		return nil
	}
	if c.s.sc.Cfg.CloseErr {
		return ErrSimCloseFail
	}
	return nil
}

// deliver releases broker->client bytes into the read buffer (one fragment).
func (c *Conn) deliver(b []byte) bool {
	c.mu.Lock()
	if c.peerClosed != 0 || c.localClosed {
		c.mu.Unlock()
		return false
	}
	c.rbuf = append(c.rbuf, b...)
	c.cond.Broadcast()
	c.mu.Unlock()
	return true
}

// send schedules delivery of one broker->client packet (index m) after the
// b2c latency, fragmented per configuration. Returns the packet index.
func (c *Conn) send(p *Pkt, raw []byte, class string, extraDelayNs int64, frag []int, eofAfter bool) int {
	s := c.s
	c.mu.Lock()
	m := c.nB2C
	c.nB2C++
	jit := int64(0)
	if js := s.sc.Cfg.JitterUs; len(js) > 0 {
		jit = js[c.jitIdx%len(js)]
		c.jitIdx++
	}
	c.mu.Unlock()
	if raw == nil {
		raw = EncodeB2C(p)
	}
	if f := s.faultAt("dropB2C", c.k, m); f != nil {
		s.fire("dropB2C")
		s.log(Rec{Kind: "dropb2c", Conn: c.k, N: m, P: p})
		return m
	}
	if f := s.faultAt("dupB2C", c.k, m); f != nil && p != nil && class != "dup" && !s.race {
		switch p.Type {
		case TPubAck, TPubRec, TPubComp, TSubAck, TUnsubAck:
			// the broker acknowledges twice: the same packet again one round trip later
			s.fire("dupB2C")
			pp := *p
			s.after(us(s.sc.Cfg.LatC2BUs+s.sc.Cfg.LatB2CUs+60), "dupB2C", func() {
				if c.alive() {
					c.send(&pp, nil, "dup", 0, nil, false)
				}
			})
		}
	}
	c.mu.Lock()
	early := c.earlyNow
	c.mu.Unlock()
	if early {
		// called from inside Transport.Write (early-reply mode): readable at once
		if c.deliver(raw) {
			s.log(Rec{Kind: "rx", Conn: c.k, N: m, P: p, S: "early"})
		}
		if eofAfter {
			c.cut(false, "broker-close")
		}
		if f := s.faultAt("cutAfterResp", c.k, m); f != nil {
			s.after(1000, "cutAfterResp", func() {
				if c.alive() {
					s.fire("cutAfterResp")
					c.cut(f.Reset, "cutAfterResp")
				}
			})
		}
		return m
	}
	if frag == nil {
		frag = s.sc.Cfg.Frag
	}
	if s.race {
		c.sendMu.Lock()
		c.releaseFrags(m, p, raw, class, frag, eofAfter)
		c.sendMu.Unlock()
		return m
	}
	// split into fragments now; the byte stream is ordered, so this packet
	// starts after everything scheduled earlier and its fragments are contiguous
	var parts [][]byte
	rest := raw
	c.mu.Lock()
	for len(rest) > 0 {
		sz := len(rest)
		if len(frag) > 0 {
			sz = frag[c.fragIdx%len(frag)]
			c.fragIdx++
			if sz <= 0 || sz > len(rest) {
				sz = len(rest)
			}
		}
		parts = append(parts, rest[:sz])
		rest = rest[sz:]
	}
	if len(raw) == 0 {
		parts = [][]byte{{}}
	}
	t0 := s.nowNs() + us(s.sc.Cfg.LatB2CUs+jit) + extraDelayNs
	if t0 <= c.busyUntil {
		t0 = c.busyUntil + 1
	}
	c.busyUntil = t0 + int64(len(parts)-1)*1000
	c.mu.Unlock()
	if len(parts) > 1 {
		s.probe("fragmented-delivery")
	}
	for i := range parts {
		i := i
		s.at(t0+int64(i)*1000, "b2c", func() { c.releasePart(m, p, raw, class, parts, i, eofAfter) })
	}
	return m
}

// releasePart puts fragment i of packet m into the read buffer (engine S).
func (c *Conn) releasePart(m int, p *Pkt, raw []byte, class string, parts [][]byte, i int, eofAfter bool) {
	s := c.s
	// the silent period swallows whole packets: one whose first fragment is already
	// out is completed
	if i == 0 && c.isSilent() && !c.exemptFromSilence(p) {
		s.log(Rec{Kind: "dropb2c", Conn: c.k, N: m, P: p, S: "silent"})
		c.mu.Lock()
		c.dropped[m] = true
		c.mu.Unlock()
		return
	}
	if i > 0 {
		c.mu.Lock()
		d := c.dropped[m]
		c.mu.Unlock()
		if d {
			return
		}
	}
	if !c.alive() {
		if i == 0 {
			s.log(Rec{Kind: "lostb2c", Conn: c.k, N: m, P: p})
		}
		return
	}
	// the record precedes the effect: whatever the client does with these bytes
	// is logged after the delivery even if the scheduler goroutine is descheduled
	// right here
	if i == len(parts)-1 {
		s.log(Rec{Kind: "rx", Conn: c.k, N: m, P: p, S: class, V: int64(len(raw))})
	}
	c.deliver(parts[i])
	if i != len(parts)-1 {
		return
	}
	c.afterRx(m, eofAfter)
}

func (c *Conn) afterRx(m int, eofAfter bool) {
	s := c.s
	if eofAfter {
		s.after(1000, "eof-after", func() { c.cut(false, "script-eof") })
	}
	if f := s.faultAt("cutAfterResp", c.k, m); f != nil {
		s.after(1000, "cutAfterResp", func() {
			if c.alive() {
				s.fire("cutAfterResp")
				c.cut(f.Reset, "cutAfterResp")
			}
		})
	}
}

// releaseFrags delivers a whole packet fragment by fragment (engine R only).
func (c *Conn) releaseFrags(m int, p *Pkt, raw []byte, class string, frag []int, eofAfter bool) {
	s := c.s
	if c.isSilent() && !c.exemptFromSilence(p) {
		s.log(Rec{Kind: "dropb2c", Conn: c.k, N: m, P: p, S: "silent"})
		return
	}
	rest := raw
	first := true
	for len(rest) > 0 {
		sz := len(rest)
		if len(frag) > 0 {
			c.mu.Lock()
			sz = frag[c.fragIdx%len(frag)]
			c.fragIdx++
			c.mu.Unlock()
			if sz <= 0 || sz > len(rest) {
				sz = len(rest)
			}
		}
		// the record precedes the effect (as in engine S): once the last fragment
		// is readable the client's reaction may be logged at any moment
		logged := false
		if sz == len(rest) && c.alive() {
			s.log(Rec{Kind: "rx", Conn: c.k, N: m, P: p, S: class, V: int64(len(raw))})
			logged = true
		}
		if !c.deliver(rest[:sz]) {
			if first {
				s.log(Rec{Kind: "lostb2c", Conn: c.k, N: m, P: p})
			}
			if logged {
				s.log(Rec{Kind: "rxlost", Conn: c.k, N: m, P: p}) // closed in between: never readable after all
			}
			return
		}
		first = false
		rest = rest[sz:]
		if len(rest) > 0 {
			runtimeGosched()
		}
	}
	if len(raw) == 0 {
		s.log(Rec{Kind: "rx", Conn: c.k, N: m, P: p, S: class, V: 0})
	}
	if eofAfter {
		c.cut(false, "script-eof")
	}
}

// ---- dialer ----

type dialReq struct {
	j    int
	ch   chan error
	done bool
}

// SimDialer implements mqtt.Dialer.
type SimDialer struct{ s *Sim }

func (d *SimDialer) DialContext(ctx context.Context) (*mqtt.BaseClient, error) {
	s := d.s
	s.mu.Lock()
	s.dialCount++
	j := s.dialCount
	req := &dialReq{j: j, ch: make(chan error, 1)}
	s.dials[j] = req
	s.mu.Unlock()
	s.log(Rec{Kind: "dial", Conn: j})
	stall := s.faultConn("dialStall", j)
	fail := s.faultConn("dialErr", j)
	switch {
	case stall != nil:
		s.fire("dialStall")
		s.mu.Lock()
		s.stalled = append(s.stalled, req)
		s.mu.Unlock()
	case fail != nil:
		s.fire("dialErr")
		s.after(us(s.sc.Cfg.DialLatUs), "dial-fail", func() { req.ch <- ErrSimDial })
	default:
		s.after(us(s.sc.Cfg.DialLatUs), "dial-ok", func() { req.ch <- nil })
	}
	select {
	case err := <-req.ch:
		if err != nil {
			s.log(Rec{Kind: "dialdone", Conn: j, Err: err.Error()})
			return nil, err
		}
		c := s.newConnLocked(j)
		c.mu.Lock()
		c.connecting = true
		c.mu.Unlock()
		cli := s.newBase(c)
		s.log(Rec{Kind: "dialdone", Conn: j})
		for i := range s.sc.Ops {
			if s.sc.Ops[i].OnDial == j {
				s.releaseOp(i) // runs concurrently with SetClient / Connect
			}
		}
		return cli, nil
	case <-ctx.Done():
		s.log(Rec{Kind: "dialdone", Conn: j, Err: ctx.Err().Error(), S: "ctx"})
		return nil, ctx.Err()
	}
}

func (s *Sim) newConnLocked(k int) *Conn {
	s.mu.Lock()
	defer s.mu.Unlock()
	return s.newConn(k)
}

// newBase builds a BaseClient on a simulated connection with a logging
// state callback.
func (s *Sim) newBase(c *Conn) *mqtt.BaseClient {
	cli := &mqtt.BaseClient{Transport: c, MaxPayloadLen: s.sc.Cfg.MaxPayloadLen}
	k := c.k
	cli.ConnState = func(st mqtt.ConnState, err error) {
		r := Rec{Kind: "state", Conn: k, S: st.String()}
		if st == mqtt.StateActive {
			// Connect has not returned yet and holds its lock while this runs
			c.mu.Lock()
			c.activeCB = true
			c.mu.Unlock()
		}
		defer func() {
			if st != mqtt.StateNew {
				c.mu.Lock()
				c.connecting = false
				if st == mqtt.StateActive {
					c.activeCB = false
				}
				c.mu.Unlock()
			}
		}()
		if err != nil {
			r.Err = err.Error()
			r.Cls = classify(err)
		}
		if s.sc.Cfg.StateCBReenters {
			// an application callback that looks at the client it was called for
			_ = cli.Done()
		}
		// what Err() says at the time of the callback
		if e2 := cli.Err(); e2 != nil {
			r.B = e2 == err
		} else {
			r.B = err == nil
		}
		s.log(r)
		if st == mqtt.StateActive {
			s.yield("app.connStateActive") // a slow application callback (Connect has not returned yet)
		}
	}
	s.mu.Lock()
	for len(s.bases) < k {
		s.bases = append(s.bases, nil)
	}
	s.bases[k-1] = cli
	s.mu.Unlock()
	return cli
}
