package sim

// WorkerSpec tells a worker process what to do (file named by VERIF_SPEC).
type WorkerSpec struct {
	Mode        string   `json:"mode"` // search | replay | minimise
	Prop        string   `json:"prop"`
	Seed        uint64   `json:"seed"`
	From        uint64   `json:"from"`
	To          uint64   `json:"to"`
	Out         string   `json:"out"`
	SampleEvery uint64   `json:"sample_every"`
	Only        []uint64 `json:"only,omitempty"` // search: run only these indices (determinism re-execution)
	Scenario    string   `json:"scenario,omitempty"`
	Sig         string   `json:"sig,omitempty"`
	Race        bool     `json:"race,omitempty"`
	MaxViol     int      `json:"max_viol,omitempty"`
	Trace       bool     `json:"trace,omitempty"`
}

// Line is one JSON line of worker output.
type Line struct {
	T        string      `json:"t"` // viol | hash | summary | replay | minimised | hang
	I        uint64      `json:"i,omitempty"`
	Hash     string      `json:"hash,omitempty"`
	Viol     []Violation `json:"viol,omitempty"`
	Scenario *Scenario   `json:"scenario,omitempty"`
	Summary  *Summary    `json:"summary,omitempty"`
	Trace    []string    `json:"trace,omitempty"`
	Note     string      `json:"note,omitempty"`
}

// Summary aggregates what a worker's runs covered.
type Summary struct {
	Runs        int            `json:"runs"`
	Steps       int64          `json:"steps"`
	Events      int64          `json:"events"`
	FakeNs      int64          `json:"fake_ns"`
	Fired       map[string]int `json:"fired"`
	Probes      map[string]int `json:"probes"`
	CapHits     int            `json:"cap_hits"`
	HarnessErrs int            `json:"harness_errs"`
	HarnessMsg  string         `json:"harness_msg,omitempty"`
	Nontrivial  int            `json:"nontrivial"`
	Deferred    int            `json:"deferred"`
	Families    map[string]int `json:"families"`
	WallS       float64        `json:"wall_s"`
	Samples     []*Scenario    `json:"samples,omitempty"`
	ViolRuns    int            `json:"viol_runs"`
}
