package sim

func checkC04(ix *index, add addFn) {}
func checkC06(ix *index, add addFn) {}
func checkC07(ix *index, add addFn) {}
func checkC11(ix *index, add addFn) {}
func checkC13(ix *index, add addFn) {}
func checkC15(ix *index, add addFn) {}
func checkC16(ix *index, add addFn) {}
func checkC17(ix *index, add addFn) {}
func checkC18(ix *index, add addFn) {}
func checkC19(ix *index, add addFn) {}
func checkC20(ix *index, add addFn) {}
