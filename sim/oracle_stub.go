package sim

func checkC20(ix *index, add addFn) {}
