package sim
