package sim

func checkC13(ix *index, add addFn) {}
func checkC16(ix *index, add addFn) {}
func checkC17(ix *index, add addFn) {}
func checkC18(ix *index, add addFn) {}
func checkC20(ix *index, add addFn) {}
