package sim

func checkC17(ix *index, add addFn) {}
func checkC18(ix *index, add addFn) {}
func checkC20(ix *index, add addFn) {}
