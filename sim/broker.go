package sim

import (
	"encoding/hex"
	"fmt"
	"sort"
	"strings"
	"sync"
)

// Broker is the reference model of an MQTT 3.1.1 server: sequential state
// machine per session, both QoS 2 receiver methods, strict decoder.
type Broker struct {
	s        *Sim
	mu       sync.Mutex
	sessions map[string]*Session
	byConn   map[*Conn]*Session
	held     []heldResp
	grantIdx int
}

// Session is the server side session state of one client id.
type Session struct {
	id      string
	subs    map[string]byte
	q2seen  map[uint16]bool // method A: ids whose message was already delivered onward
	q2store map[uint16]*Pkt // method B: stored until PUBREL
	conn    *Conn
	clean   bool
}

type heldResp struct {
	c        *Conn
	p        *Pkt
	released bool
}

func newBroker(s *Sim) *Broker {
	return &Broker{s: s, sessions: map[string]*Session{}, byConn: map[*Conn]*Session{}}
}

func newSession(id string) *Session {
	return &Session{id: id, subs: map[string]byte{}, q2seen: map[uint16]bool{}, q2store: map[uint16]*Pkt{}}
}

func (b *Broker) connGone(c *Conn) {
	b.mu.Lock()
	defer b.mu.Unlock()
	c.mu.Lock()
	already := c.brokerGone
	c.brokerGone = true
	c.mu.Unlock()
	if already {
		return
	}
	if se := b.byConn[c]; se != nil {
		if se.conn == c {
			se.conn = nil
		}
		if se.clean {
			delete(b.sessions, se.id)
		}
		delete(b.byConn, c)
	}
}

func (c *Conn) gone() bool {
	c.mu.Lock()
	defer c.mu.Unlock()
	return c.brokerGone || c.peerClosed != 0
}

// process is the broker receiving client->broker packet n of connection c.
func (b *Broker) process(c *Conn, n int, p *Pkt) {
	s := b.s
	if c.gone() {
		s.log(Rec{Kind: "lostc2b", Conn: c.k, N: n, P: p})
		return
	}
	if c.isSilent() && !c.exemptFromSilence(p) {
		s.log(Rec{Kind: "dropc2b", Conn: c.k, N: n, P: p, S: "silent"})
		return
	}
	if f := s.faultAt("cutBefore", c.k, n); f != nil {
		s.fire("cutBefore")
		s.noteInflight()
		s.log(Rec{Kind: "lostc2b", Conn: c.k, N: n, P: p, S: "cutBefore"})
		c.cut(f.Reset, "cutBefore")
		return
	}
	if f := s.faultAt("dropC2B", c.k, n); f != nil {
		s.fire("dropC2B")
		s.log(Rec{Kind: "dropc2b", Conn: c.k, N: n, P: p})
		return
	}
	s.log(Rec{Kind: "bproc", Conn: c.k, N: n, P: p})
	resps, closeAfter := b.handle(c, n, p)
	if f := s.faultAt("cutAfter", c.k, n); f != nil {
		s.fire("cutAfter")
		s.noteInflight()
		c.cut(f.Reset, "cutAfter")
		return
	}
	if s.sc.Cfg.Coalesce && len(resps) > 1 {
		// all responses to one request in a single read
		var raw []byte
		for _, r := range resps {
			raw = append(raw, EncodeB2C(r.p)...)
		}
		for i, r := range resps {
			if i < len(resps)-1 {
				s.log(Rec{Kind: "rxglued", Conn: c.k, P: r.p})
			}
		}
		last := resps[len(resps)-1]
		c.sendGlued(last.p, raw, resps[:len(resps)-1], closeAfter)
		return
	}
	for i, r := range resps {
		c.send(r.p, r.raw, r.class, 0, nil, closeAfter && i == len(resps)-1)
	}
	if closeAfter && len(resps) == 0 {
		c.cut(false, "broker-close")
	}
}

type resp struct {
	p     *Pkt
	raw   []byte
	class string
}

func (s *Sim) noteInflight() { s.probe("fault-while-inflight") }

// sendGlued delivers several packets as one read; the glued ones are logged
// as rx at the same time as the last.
func (c *Conn) sendGlued(last *Pkt, raw []byte, glued []resp, eofAfter bool) {
	s := c.s
	c.mu.Lock()
	base := c.nB2C
	c.nB2C += len(glued) + 1
	c.mu.Unlock()
	c.mu.Lock()
	t0 := s.nowNs() + us(s.sc.Cfg.LatB2CUs)
	if t0 <= c.busyUntil {
		t0 = c.busyUntil + 1
	}
	c.busyUntil = t0
	c.mu.Unlock()
	fn := func() {
		if c.isSilent() && !c.exemptFromSilence(last) {
			return
		}
		if !c.alive() {
			s.log(Rec{Kind: "lostb2c", Conn: c.k, N: base, P: last})
			return
		}
		for i, g := range glued {
			s.log(Rec{Kind: "rx", Conn: c.k, N: base + i, P: g.p, S: g.class})
		}
		s.log(Rec{Kind: "rx", Conn: c.k, N: base + len(glued), P: last})
		s.probe("glued-delivery")
		c.deliver(raw)
		if eofAfter {
			s.after(1000, "eof-after", func() { c.cut(false, "broker-close") })
		}
	}
	if s.race {
		c.sendMu.Lock()
		fn()
		c.sendMu.Unlock()
		return
	}
	s.at(t0, "b2c-glued", fn)
}

func (b *Broker) handle(c *Conn, n int, p *Pkt) (out []resp, closeAfter bool) {
	s := b.s
	cfg := &s.sc.Cfg
	b.mu.Lock()
	defer b.mu.Unlock()
	c.mu.Lock()
	got := c.gotConnect
	c.mu.Unlock()
	if !got {
		if p.Type != TConnect {
			s.log(Rec{Kind: "bviolation", Conn: c.k, N: n, P: p, S: "first packet is not CONNECT"})
			return nil, true
		}
		c.mu.Lock()
		c.gotConnect = true
		c.mu.Unlock()
		if f := s.faultConn("connackNever", c.k); f != nil {
			s.fire("connackNever")
			return nil, false
		}
		if f := s.faultConn("connackRefuse", c.k); f != nil {
			s.fire("connackRefuse")
			code := f.Code // incl. reserved values and MQTT 5 reason codes: anything but 0 refuses
			if code == 0 {
				code = 3
			}
			// (Prefix 1: a peer - a proxy, a non-compliant broker - that refuses and
			// leaves the connection open; ending it is then the client's job)
			return []resp{{p: &Pkt{Type: TConnAck, Code: code}}}, f.Prefix != 1
		}
		if f := s.faultConn("sessionLoss", c.k); f != nil {
			if _, ok := b.sessions[p.ClientID]; ok {
				s.fire("sessionLoss")
				s.log(Rec{Kind: "sessreset", Conn: c.k, S: "sessionLoss"})
			}
			delete(b.sessions, p.ClientID)
		}
		se := b.sessions[p.ClientID]
		sp := false
		if p.CleanSession {
			if se != nil {
				s.log(Rec{Kind: "sessreset", Conn: c.k, S: "cleanSession"})
			}
			se = nil
		}
		if se == nil {
			se = newSession(p.ClientID)
			b.sessions[p.ClientID] = se
		} else {
			sp = true
		}
		se.clean = p.CleanSession
		if se.conn != nil && se.conn != c {
			old := se.conn
			s.probe("session-takeover")
			delete(b.byConn, old)
			// MQTT-3.1.4-2: disconnect the existing client
			s.after(0, "takeover", func() { old.cut(false, "takeover") })
		}
		se.conn = c
		b.byConn[c] = se
		s.log(Rec{Kind: "connected", Conn: c.k, B: sp})
		if p.ProtoLevel == 3 {
			sp = false // MQTT 3.1 has no Session Present flag: the byte is reserved (0)
		}
		out = []resp{{p: &Pkt{Type: TConnAck, SessionPresent: sp}}}
		// scripted traffic right after CONNACK
		for i := range s.sc.Script {
			o := s.sc.Script[i]
			if !o.AfterConnack || o.Conn != c.k {
				continue
			}
			i := i
			if o.Glue && o.Kind == "pkt" && o.Pkt != nil {
				out = append(out, resp{p: o.Pkt, class: o.Class})
				continue
			}
			s.after(us(o.DelayUs), "script-after-connack", func() { s.runScript(i) })
		}
		if len(out) > 1 {
			// glue requested: deliver CONNACK and the glued packets in one read
			var raw []byte
			for _, r := range out {
				raw = append(raw, EncodeB2C(r.p)...)
			}
			last := out[len(out)-1]
			glued := out[:len(out)-1]
			c.sendGlued(last.p, raw, glued, false)
			return nil, false
		}
		return out, false
	}
	se := b.byConn[c]
	if se == nil {
		// CONNECT seen but never answered (connackNever) or refused: ignore
		return nil, false
	}
	switch p.Type {
	case TConnect:
		s.log(Rec{Kind: "bviolation", Conn: c.k, N: n, P: p, S: "second CONNECT"})
		return nil, true
	case TPublish:
		switch p.QoS {
		case 0:
			b.onward(c, n, p)
		case 1:
			b.onward(c, n, p)
			out = append(out, resp{p: &Pkt{Type: TPubAck, ID: p.ID}})
		case 2:
			if cfg.BrokerMethod == "B" {
				se.q2store[p.ID] = p
			} else {
				if !se.q2seen[p.ID] {
					se.q2seen[p.ID] = true
					b.onward(c, n, p)
				} else {
					s.probe("q2-dup-suppressed")
				}
			}
			out = append(out, resp{p: &Pkt{Type: TPubRec, ID: p.ID}})
		}
	case TPubRel:
		if cfg.BrokerMethod == "B" {
			if m, ok := se.q2store[p.ID]; ok {
				delete(se.q2store, p.ID)
				b.onward(c, n, m)
			} else {
				s.probe("pubrel-unknown-id")
			}
		} else {
			if !se.q2seen[p.ID] {
				s.probe("pubrel-unknown-id")
			}
			delete(se.q2seen, p.ID)
		}
		out = append(out, resp{p: &Pkt{Type: TPubComp, ID: p.ID}})
	case TSubscribe:
		codes := make([]byte, 0, len(p.Subs))
		for _, sr := range p.Subs {
			g := sr.QoS
			if len(cfg.GrantQoS) > 0 {
				g = cfg.GrantQoS[b.grantIdx%len(cfg.GrantQoS)]
				b.grantIdx++
			}
			if g != 0x80 {
				se.subs[sr.Filter] = sr.QoS // the requested QoS (what C08 compares); g is what the SUBACK says
			}
			codes = append(codes, g)
		}
		out = append(out, resp{p: &Pkt{Type: TSubAck, ID: p.ID, Codes: codes}})
	case TUnsubscribe:
		for _, f := range p.Topics {
			delete(se.subs, f)
		}
		out = append(out, resp{p: &Pkt{Type: TUnsubAck, ID: p.ID}})
	case TPingReq:
		return []resp{{p: &Pkt{Type: TPingResp}}}, false
	case TDisconnect:
		s.log(Rec{Kind: "bdisconnect", Conn: c.k})
		return nil, true
	case TPubRec:
		if cfg.AutoPubRel {
			out = append(out, resp{p: &Pkt{Type: TPubRel, ID: p.ID}})
		}
		return out, false
	case TPubAck, TPubComp:
		return nil, false
	}
	if cfg.HoldAcks && len(out) > 0 {
		for _, r := range out {
			b.held = append(b.held, heldResp{c: c, p: r.p})
			s.log(Rec{Kind: "held", Conn: c.k, N: n, P: r.p, V: int64(len(b.held) - 1)})
		}
		return nil, false
	}
	return out, false
}

func (b *Broker) onward(c *Conn, n int, p *Pkt) {
	b.s.log(Rec{Kind: "onward", Conn: c.k, N: n, P: p, S: tokenOf(p.Pay)})
}

// tokenOf strips the padding from a payload.
func tokenOf(pay string) string {
	if i := strings.IndexByte(pay, '.'); i >= 0 {
		return pay[:i]
	}
	return pay
}

// release sends held response j (HoldAcks mode).
func (b *Broker) release(j int, conn int) {
	b.mu.Lock()
	if j < 0 {
		// oldest unreleased response held for connection conn
		for i := range b.held {
			if !b.held[i].released && b.held[i].c.k == conn {
				j = i
				break
			}
		}
	}
	if j < 0 || j >= len(b.held) || b.held[j].released {
		b.mu.Unlock()
		b.s.probe("release-noop")
		return
	}
	b.held[j].released = true
	h := b.held[j]
	b.mu.Unlock()
	b.s.log(Rec{Kind: "released", Conn: h.c.k, P: h.p, V: int64(j)})
	h.c.send(h.p, nil, "", 0, nil, false)
}

// releaseGlued sends several held responses as one read.
func (b *Broker) releaseGlued(js []int, c *Conn) {
	var rs []resp
	b.mu.Lock()
	for _, j := range js {
		if j < 0 || j >= len(b.held) || b.held[j].released || b.held[j].c != c {
			continue
		}
		b.held[j].released = true
		rs = append(rs, resp{p: b.held[j].p})
		b.s.log(Rec{Kind: "released", Conn: c.k, P: b.held[j].p, V: int64(j)})
	}
	b.mu.Unlock()
	if len(rs) == 0 {
		b.s.probe("release-noop")
		return
	}
	if len(rs) == 1 {
		c.send(rs[0].p, nil, "", 0, nil, false)
		return
	}
	var raw []byte
	for _, r := range rs {
		raw = append(raw, EncodeB2C(r.p)...)
	}
	c.sendGlued(rs[len(rs)-1].p, raw, rs[:len(rs)-1], false)
}

// runScript executes scripted broker->client item i.
func (s *Sim) runScript(i int) {
	o := s.sc.Script[i]
	c := s.conn(o.Conn)
	if c == nil {
		s.probe("script-noconn")
		return
	}
	if o.Kind == "pkt" || o.Kind == "raw" {
		// a broker says nothing before it has accepted the CONNECT
		c.mu.Lock()
		got := c.gotConnect
		c.mu.Unlock()
		if !got && s.sc.Cfg.Client != "base" {
			s.probe("script-before-connect")
			return
		}
	}
	switch o.Kind {
	case "pkt":
		c.send(o.Pkt, nil, o.Class, 0, o.Frag, o.EOFAfter)
	case "raw":
		raw, _ := hex.DecodeString(o.RawHex)
		c.send(nil, raw, o.Class, 0, o.Frag, o.EOFAfter)
	case "release":
		s.broker.release(o.Held, o.Conn)
	case "releaseglued":
		s.broker.releaseGlued(o.Helds, c)
	case "cut":
		c.cut(false, "script")
	}
}

// subTable renders the subscription table of a session deterministically.
func (b *Broker) subTable(id string) string {
	b.mu.Lock()
	defer b.mu.Unlock()
	se := b.sessions[id]
	if se == nil {
		return "<no session>"
	}
	var ks []string
	for f := range se.subs {
		ks = append(ks, f)
	}
	sort.Strings(ks)
	var sb strings.Builder
	for _, f := range ks {
		fmt.Fprintf(&sb, "%s=%d;", f, se.subs[f])
	}
	return sb.String()
}
