package sim

import (
	"fmt"
	"sort"
	"strings"
)

// Violation is one oracle rule failing on one run.
type Violation struct {
	Prop   string `json:"prop"`
	Rule   string `json:"rule"`
	Detail string `json:"detail"`
	// Feat: structural features used to match known findings
	Feat map[string]string `json:"feat,omitempty"`
}

// Sig is what must stay the same while a scenario is minimised.
func (v Violation) Sig() string { return v.Prop + "/" + v.Rule }

type opInfo struct {
	inv, ret int // trace indices (-1 if absent)
	err      string
	cls      string
	extra    string
	ctxErr   bool
	ctxDone  bool
	pre      bool
}

// index is a digest of a trace shared by the oracles.
type index struct {
	sc       *Scenario
	res      *Result
	tr       []Rec
	ops      []opInfo
	judge    int
	teardown int
	horizon  int
	discAt   int // first "cause disconnect" (-1)
	tx       []int
	rx       []int
	complete bool // judged without a cap
}

func buildIndex(sc *Scenario, res *Result) *index {
	ix := &index{sc: sc, res: res, tr: res.Trace, judge: -1, teardown: -1, horizon: -1, discAt: -1}
	ix.ops = make([]opInfo, len(sc.Ops))
	for i := range ix.ops {
		ix.ops[i].inv, ix.ops[i].ret = -1, -1
	}
	for i := range ix.tr {
		r := &ix.tr[i]
		switch r.Kind {
		case "inv":
			if r.Op >= 1 && r.Op <= len(ix.ops) {
				ix.ops[r.Op-1].inv = i
				ix.ops[r.Op-1].pre = r.B
			}
		case "ret":
			if r.Op >= 1 && r.Op <= len(ix.ops) {
				o := &ix.ops[r.Op-1]
				o.ret, o.err, o.cls, o.extra, o.ctxErr, o.ctxDone = i, r.Err, r.Cls, r.S, r.B, r.V == 1
			}
		case "judge":
			ix.judge = i
		case "teardown":
			ix.teardown = i
		case "horizon":
			ix.horizon = i
		case "cause":
			if r.S == "disconnect" && ix.discAt < 0 {
				ix.discAt = i
			}
		case "tx":
			ix.tx = append(ix.tx, i)
		case "rx":
			ix.rx = append(ix.rx, i)
		}
	}
	ix.complete = ix.judge >= 0 && res.CapHit == "" && res.HarnessErr == ""
	return ix
}

// connectCalled: the application asked for a connection and did not give up
// (Connect returned nil or is still waiting).
func (ix *index) connectCalled() bool {
	for i, op := range ix.sc.Ops {
		if op.Kind == "connect" || op.Kind == "rconnect" {
			o := ix.ops[i]
			if o.inv >= 0 && (o.ret < 0 || o.err == "") {
				return true
			}
		}
	}
	return false
}

// end is the trace index up to which liveness evidence counts.
func (ix *index) end() int {
	if ix.judge >= 0 {
		return ix.judge
	}
	return len(ix.tr)
}

func subsKey(s []SubReq) string {
	var sb strings.Builder
	for _, x := range s {
		fmt.Fprintf(&sb, "%s=%d;", x.Filter, x.QoS)
	}
	return sb.String()
}

// accepted: op returned nil before judgement.
func (ix *index) accepted(i int) bool {
	o := ix.ops[i]
	return o.ret >= 0 && o.err == "" && o.ret < ix.end() && !strings.HasPrefix(o.extra, "skipped")
}

// ackedAfter: an rx of type t with id on conn k after trace index i (before judgement).
func (ix *index) rxAfter(k, t int, id uint16, after int) int {
	for _, j := range ix.rx {
		if j <= after || j >= ix.end() {
			continue
		}
		r := &ix.tr[j]
		if r.Conn == k && r.P != nil && r.P.Type == t && r.P.ID == id {
			return j
		}
	}
	return -1
}

// Check evaluates the oracle rules of one property over one run.
func Check(prop string, sc *Scenario, res *Result) []Violation {
	if res.HarnessErr != "" {
		return nil
	}
	ix := buildIndex(sc, res)
	var vs []Violation
	add := func(rule, detail string, feat map[string]string) {
		vs = append(vs, Violation{Prop: prop, Rule: rule, Detail: detail, Feat: feat})
	}
	switch prop {
	case "C01":
		checkC01(ix, add)
	case "C02":
		checkC02(ix, add)
	case "C03":
		checkC03(ix, add)
	case "C04":
		checkC04(ix, add)
	case "C06":
		checkC06(ix, add)
	case "C07":
		checkC07(ix, add)
	case "C08":
		checkC08(ix, add)
	case "C09":
		checkC09(ix, add)
	case "C11":
		checkC11(ix, add)
	case "C12":
		checkC12(ix, add)
	case "C13":
		checkC13(ix, add)
	case "C15":
		checkC15(ix, add)
	case "C16":
		checkC16(ix, add)
	case "C17":
		checkC17(ix, add)
	case "C18":
		checkC18(ix, add)
	case "C19":
		checkC19(ix, add)
	case "C20":
		checkC20(ix, add)
	}
	// framing is checked on every connection of every run (C10, engine S part)
	if prop == "C10" {
		checkFraming(ix, add)
	}
	sort.SliceStable(vs, func(i, j int) bool { return vs[i].Rule < vs[j].Rule })
	return vs
}

type addFn func(rule, detail string, feat map[string]string)

func checkFraming(ix *index, add addFn) {
	for i := range ix.tr {
		r := &ix.tr[i]
		if r.Kind == "connstat" && strings.Contains(r.S, "writedead=false") && !strings.Contains(r.S, "wbuf=0 ") {
			add("interleaved", fmt.Sprintf("conn %d: bytes that are not a whole packet were left on the wire although every Write completed (%s)", r.Conn, r.S), nil)
			return
		}
		if r.Kind == "txbad" {
			add("wire-undecodable", fmt.Sprintf("conn %d packet %d: %s", r.Conn, r.N, r.S), nil)
			return
		}
	}
}

// ---------------------------------------------------------------- C01

func checkC01(ix *index, add addFn) {
	if !ix.complete || ix.discAt >= 0 || !ix.connectCalled() {
		return
	}
	sc := ix.sc
	// multiset matching for subscribe / unsubscribe
	subWant := map[string]int{}
	unsubWant := map[string]int{}
	for i, op := range sc.Ops {
		if !ix.accepted(i) {
			continue
		}
		switch op.Kind {
		case "publish":
			if op.QoS == 0 {
				continue
			}
			if !ix.publishAcked(op.Token, op.QoS) {
				add("unacked", fmt.Sprintf("op %d publish q%d token %s accepted but never acknowledged", i, op.QoS, op.Token),
					map[string]string{"kind": "publish", "qos": fmt.Sprint(op.QoS)})
			}
		case "subscribe":
			subWant[subsKey(op.Subs)]++
		case "unsubscribe":
			unsubWant[strings.Join(op.Topics, ",")]++
		}
	}
	if len(subWant) > 0 || len(unsubWant) > 0 {
		subGot := map[string]int{}
		unsubGot := map[string]int{}
		for _, i := range ix.tx {
			r := &ix.tr[i]
			if i >= ix.end() {
				break
			}
			switch r.P.Type {
			case TSubscribe:
				if ix.rxAfter(r.Conn, TSubAck, r.P.ID, i) >= 0 {
					subGot[subsKey(r.P.Subs)]++
				}
			case TUnsubscribe:
				if ix.rxAfter(r.Conn, TUnsubAck, r.P.ID, i) >= 0 {
					unsubGot[strings.Join(r.P.Topics, ",")]++
				}
			}
		}
		for k, n := range subWant {
			if subGot[k] < n {
				add("unacked", fmt.Sprintf("subscribe %s: %d accepted call(s), %d acknowledged SUBSCRIBE packet(s)", k, n, subGot[k]), map[string]string{"kind": "subscribe"})
			}
		}
		for k, n := range unsubWant {
			if unsubGot[k] < n {
				add("unacked", fmt.Sprintf("unsubscribe %s: %d accepted call(s), %d acknowledged UNSUBSCRIBE packet(s)", k, n, unsubGot[k]), map[string]string{"kind": "unsubscribe"})
			}
		}
	}
}

// publishAcked: PUBACK (q1) / PUBCOMP after PUBREL (q2) delivered for the token.
func (ix *index) publishAcked(token string, qos byte) bool {
	ids := map[uint16]bool{}
	for _, i := range ix.tx {
		if i >= ix.end() {
			break
		}
		r := &ix.tr[i]
		if r.P.Type == TPublish && tokenOf(r.P.Pay) == token {
			ids[r.P.ID] = true
			if qos == 1 && ix.rxAfter(r.Conn, TPubAck, r.P.ID, i) >= 0 {
				return true
			}
		}
		if qos == 2 && r.P.Type == TPubRel && ids[r.P.ID] {
			if ix.rxAfter(r.Conn, TPubComp, r.P.ID, i) >= 0 {
				return true
			}
		}
	}
	return false
}

// ---------------------------------------------------------------- C02

func checkC02(ix *index, add addFn) {
	sc := ix.sc
	q2 := map[string]int{} // token -> op
	for i, op := range sc.Ops {
		if op.Kind == "publish" && op.QoS == 2 {
			q2[op.Token] = i
		}
	}
	onward := map[string]int{}
	for i := range ix.tr {
		r := &ix.tr[i]
		if r.Kind == "onward" {
			if _, ok := q2[r.S]; ok {
				onward[r.S]++
				if onward[r.S] == 2 {
					add("duplicate", fmt.Sprintf("QoS 2 message %s delivered onward twice (second time on conn %d)", r.S, r.Conn), nil)
				}
			}
		}
	}
	// tx-after-pubcomp: nothing for a message after its PUBCOMP was received
	type mstate struct {
		id       uint16
		hasID    bool
		relConn  map[int]int // conn -> trace idx of a PUBREL tx
		complete int
	}
	ms := map[string]*mstate{}
	for tok := range q2 {
		ms[tok] = &mstate{relConn: map[int]int{}, complete: -1}
	}
	for i := range ix.tr {
		r := &ix.tr[i]
		switch r.Kind {
		case "tx":
			switch r.P.Type {
			case TPublish:
				m := ms[tokenOf(r.P.Pay)]
				if m == nil {
					continue
				}
				if m.complete >= 0 {
					add("tx-after-pubcomp", fmt.Sprintf("PUBLISH for %s transmitted on conn %d after its PUBCOMP was received", tokenOf(r.P.Pay), r.Conn), map[string]string{"pkt": "PUBLISH"})
					return
				}
				m.id, m.hasID = r.P.ID, true
			case TPubRel:
				// attribute to the incomplete message with that id
				attributed := false
				for _, m := range ms {
					if m.hasID && m.id == r.P.ID && m.complete < 0 {
						m.relConn[r.Conn] = i
						attributed = true
					}
				}
				if !attributed {
					// only a violation if some completed message of ours had this id
					for tok, m := range ms {
						if m.hasID && m.id == r.P.ID && m.complete >= 0 {
							add("tx-after-pubcomp", fmt.Sprintf("PUBREL id %d (message %s) transmitted on conn %d after its PUBCOMP was received", r.P.ID, tok, r.Conn), map[string]string{"pkt": "PUBREL"})
							return
						}
					}
				}
			}
		case "rx":
			if r.P != nil && r.P.Type == TPubComp {
				for _, m := range ms {
					if m.hasID && m.id == r.P.ID && m.complete < 0 {
						if j, ok := m.relConn[r.Conn]; ok && j < i {
							// a PUBCOMP that arrives after the request was abandoned on this
							// connection (response timeout reported in between) was not
							// "received for the message": the client had already decided to
							// retransmit, which is what it must do
							abandoned := false
							for k := j; k < i; k++ {
								if ix.tr[k].Kind == "onerror" && hasCls(ix.tr[k].Cls, "reqtimeout") {
									abandoned = true
								}
							}
							if !abandoned {
								m.complete = i
							}
						}
					}
				}
			}
		}
	}
	if !ix.complete || ix.discAt >= 0 || !ix.connectCalled() {
		return
	}
	for tok, i := range q2 {
		if ix.accepted(i) && onward[tok] == 0 {
			add("missing", fmt.Sprintf("QoS 2 message %s accepted but never delivered onward", tok), nil)
		}
	}
}

// ---------------------------------------------------------------- C03

func checkC03(ix *index, add addFn) {
	sc := ix.sc
	// submission index of each request of the single submitting actor
	subIdx := map[int]int{} // op -> submission index
	tokOp := map[string]int{}
	n := 0
	type pend struct{ op int }
	for i, op := range sc.Ops {
		if op.Kind == "publish" || op.Kind == "subscribe" || op.Kind == "unsubscribe" {
			if ix.ops[i].inv < 0 {
				continue
			}
			subIdx[i] = n
			n++
			if op.Kind == "publish" {
				tokOp[op.Token] = i
			}
		}
	}
	// ops are released in AtUs order by one actor: submission order = inv order
	type kv struct{ op, inv int }
	var order []kv
	for op := range subIdx {
		order = append(order, kv{op, ix.ops[op].inv})
	}
	sort.Slice(order, func(a, b int) bool { return order[a].inv < order[b].inv })
	for j, e := range order {
		subIdx[e.op] = j
	}

	// conn-order over PUBLISH packets
	last := map[int]int{}
	lastTok := map[int]string{}
	for _, i := range ix.tx {
		r := &ix.tr[i]
		if r.P.Type != TPublish {
			continue
		}
		op, ok := tokOp[tokenOf(r.P.Pay)]
		if !ok {
			continue
		}
		si := subIdx[op]
		if l, seen := last[r.Conn]; seen && si < l {
			add("conn-order", fmt.Sprintf("conn %d: PUBLISH of %s (submitted #%d) after PUBLISH of %s (submitted #%d)", r.Conn, tokenOf(r.P.Pay), si, lastTok[r.Conn], l), nil)
			return
		}
		last[r.Conn] = si
		lastTok[r.Conn] = tokenOf(r.P.Pay)
	}
	// first-tx-order: first transmissions in submission order. SUBSCRIBE /
	// UNSUBSCRIBE packets are attributed by content to the earliest call with
	// that content that has no first transmission yet; unattributable ones
	// are re-subscriptions.
	firstTx := map[int]int{}
	firsts := map[string]int{}
	// re-subscriptions are single-filter SUBSCRIBEs generated by the client after a
	// reconnect without a kept session; where they can occur, SUBSCRIBE packets
	// are not attributed to application calls by content
	resubPossible := false
	{
		n := 0
		for _, c := range ix.connInfos() {
			if c.accepted {
				n++
				if n > 0 && (!c.sp || sc.Cfg.AlwaysResub) && c.k > 1 {
					resubPossible = true
				}
			}
		}
	}
	dropRun := false
	for _, f := range sc.Faults {
		if f.Kind == "dropB2C" || f.Kind == "dropC2B" || f.Kind == "silentFrom" {
			dropRun = true
		}
	}
	for _, i := range ix.tx {
		r := &ix.tr[i]
		switch r.P.Type {
		case TPublish:
			if op, ok := tokOp[tokenOf(r.P.Pay)]; ok {
				if _, seen := firstTx[op]; !seen {
					firstTx[op] = i
				}
			}
		case TSubscribe, TUnsubscribe:
			key := subsKey(r.P.Subs)
			if r.P.Type == TUnsubscribe {
				key = "U:" + strings.Join(r.P.Topics, ",")
			}
			// a packet whose content equals an earlier, still unacknowledged
			// packet is a retransmission of that one, not a first transmission
			acked := 0
			for _, j := range ix.tx {
				if j >= i {
					break
				}
				q := &ix.tr[j]
				if q.P.Type != r.P.Type {
					continue
				}
				k2 := subsKey(q.P.Subs)
				ackT := TSubAck
				if q.P.Type == TUnsubscribe {
					k2 = "U:" + strings.Join(q.P.Topics, ",")
					ackT = TUnsubAck
				}
				if k2 != key {
					continue
				}
				if a := ix.rxAfter(q.Conn, ackT, q.P.ID, j); a >= 0 && a < i {
					acked++
				}
			}
			if firsts[key] > acked {
				continue
			}
			if r.P.Type == TSubscribe && resubPossible {
				continue // cannot be told apart from a re-subscription by content
			}
			if dropRun {
				// with acknowledgements timing out on a link that stays up, a request
				// given up on and an identical later request are on the wire side by
				// side: content does not tell a retransmission from a first transmission
				continue
			}
			for _, e := range order {
				o := sc.Ops[e.op]
				if _, seen := firstTx[e.op]; seen {
					continue
				}
				if r.P.Type == TSubscribe && o.Kind == "subscribe" && subsKey(o.Subs) == key && ix.ops[e.op].inv < i {
					firstTx[e.op] = i
					firsts[key]++
					break
				}
				if r.P.Type == TUnsubscribe && o.Kind == "unsubscribe" && "U:"+strings.Join(o.Topics, ",") == key && ix.ops[e.op].inv < i {
					firstTx[e.op] = i
					firsts[key]++
					break
				}
			}
		}
	}
	prev, prevOp := -1, -1
	for _, e := range order {
		ft, ok := firstTx[e.op]
		if !ok {
			continue // never transmitted (QoS 0 dropped, or still queued)
		}
		if ft < prev {
			add("first-tx-order", fmt.Sprintf("op %d (%s) first transmitted before op %d although submitted later", e.op, sc.Ops[e.op].Kind, prevOp), nil)
			return
		}
		if ft > prev {
			prev, prevOp = ft, e.op
		}
	}
	// a filter's first appearance on the wire, be it in the application's own
	// SUBSCRIBE or in a re-subscription generated from the client's table (which
	// already lists subscriptions that were never sent), comes after the first
	// transmission of everything submitted before that Subscribe call
	{
		seenFilter := map[string]bool{}
		for oi, e := range order {
			o := sc.Ops[e.op]
			if o.Kind != "subscribe" {
				continue
			}
			for _, sr := range o.Subs {
				if seenFilter[sr.Filter] {
					continue
				}
				seenFilter[sr.Filter] = true
				F := -1
				for _, i := range ix.tx {
					r := &ix.tr[i]
					if r.P.Type != TSubscribe {
						continue
					}
					for _, x := range r.P.Subs {
						if x.Filter == sr.Filter {
							F = i
						}
					}
					if F >= 0 {
						break
					}
				}
				if F < 0 {
					continue
				}
				for _, e2 := range order[:oi] {
					o2 := sc.Ops[e2.op]
					if (o2.Kind == "publish" && o2.QoS > 0) || o2.Kind == "unsubscribe" {
						if ft, ok := firstTx[e2.op]; ok && ft > F {
							add("first-tx-order", fmt.Sprintf("filter %q of op %d (subscribe) was on the wire before the first transmission of op %d (%s) although submitted later", sr.Filter, e.op, e2.op, o2.Kind), map[string]string{"via": "filter"})
							return
						}
					}
				}
			}
		}
	}
	// delivery-order (only closing faults in the run)
	for _, f := range sc.Faults {
		switch f.Kind {
		case "dropB2C", "dropC2B", "silentFrom":
			return
		}
	}
	seen := map[string]bool{}
	lastSi := -1
	for i := range ix.tr {
		r := &ix.tr[i]
		if r.Kind != "onward" || r.P.QoS == 0 {
			continue
		}
		if seen[r.S] {
			continue
		}
		seen[r.S] = true
		op, ok := tokOp[r.S]
		if !ok {
			continue
		}
		if subIdx[op] < lastSi {
			add("delivery-order", fmt.Sprintf("message %s first delivered onward after a message submitted later", r.S), nil)
			return
		}
		lastSi = subIdx[op]
	}
}

// ---------------------------------------------------------------- C12

func checkC12(ix *index, add addFn) {
	type first struct {
		p     *Pkt
		relOK bool
	}
	seen := map[string]*first{}
	byID := map[uint16][]string{}
	for i := range ix.tr {
		r := &ix.tr[i]
		if r.Kind == "txbad" && strings.Contains(r.S, "qos0 with DUP") {
			// the strict decoder refuses it, so it never becomes a tx record: a
			// QoS 0 PUBLISH with DUP=1 can only be a retransmitted QoS 0 message (or
			// a first transmission carrying DUP)
			add("q0-once", fmt.Sprintf("conn %d: QoS 0 PUBLISH with DUP=1 on the wire (%s)", r.Conn, r.S), nil)
			continue
		}
		if r.Kind != "tx" && r.Kind != "txfail" {
			continue
		}
		attempt := r.Kind == "txfail"
		switch r.P.Type {
		case TPublish:
			tok := tokenOf(r.P.Pay)
			if tok == "" {
				continue
			}
			f := seen[tok]
			if f == nil {
				// the first attempt to send (a Write call was made, whether or not
				// the bytes arrived) is the first transmission
				if r.P.Dup {
					add("first-dup0", fmt.Sprintf("first transmission of %s has DUP=1 (conn %d)", tok, r.Conn), nil)
				}
				seen[tok] = &first{p: r.P}
				if r.P.QoS > 0 {
					byID[r.P.ID] = append(byID[r.P.ID], tok)
				}
				continue
			}
			if r.P.QoS == 0 || f.p.QoS == 0 {
				add("q0-once", fmt.Sprintf("QoS 0 message %s transmitted again (conn %d)", tok, r.Conn), nil)
				continue
			}
			if !r.P.Dup {
				add("re-dup1", fmt.Sprintf("retransmission of %s has DUP=0 (conn %d)", tok, r.Conn), nil)
			}
			if r.P.ID != f.p.ID || r.P.Topic != f.p.Topic || r.P.Pay != f.p.Pay || r.P.QoS != f.p.QoS || r.P.Retain != f.p.Retain {
				add("same-fields", fmt.Sprintf("retransmission of %s differs: first %s, now %s", tok, f.p, r.P), nil)
			}
			if f.relOK && !attempt {
				add("no-publish-after-pubrel", fmt.Sprintf("PUBLISH for %s transmitted on conn %d after its PUBREL was sent", tok, r.Conn), nil)
			}
		case TPubRel:
			if attempt {
				continue // never reached the wire
			}
			// attribute to the most recent QoS 2 message that used this id
			toks := byID[r.P.ID]
			if len(toks) == 0 {
				continue
			}
			f := seen[toks[len(toks)-1]]
			if f.p.QoS == 2 {
				f.relOK = true
			}
		}
	}
}
