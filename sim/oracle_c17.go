package sim

import (
	"fmt"
	"strings"
)

// checkC17: the registered handler keeps receiving on every later connection.
func checkC17(ix *index, add addFn) {
	sc := ix.sc
	if sc.Family == "race" {
		// (the hand-driven RetryClient of engine S can keep a replaced connection
		// open, whose handler legitimately differs)
		checkC17Stable(ix, add)
	}
	// handler registrations in trace order
	type reg struct {
		inv, ret int
		h        int
	}
	var regs []reg
	for k, op := range sc.Ops {
		if op.Kind == "handle" && ix.ops[k].inv >= 0 && ix.ops[k].ret >= 0 {
			regs = append(regs, reg{ix.ops[k].inv, ix.ops[k].ret, op.Handler})
		}
	}
	// registrations made from inside a handler
	begin := -1
	for i := range ix.tr {
		if r := &ix.tr[i]; r.Kind == "reg" {
			if r.S == "begin" {
				begin = i
			} else if begin >= 0 {
				regs = append(regs, reg{begin, i, int(r.V)})
				begin = -1
			}
		}
	}
	q2pending := map[int]map[uint16]*Pkt{} // conn -> id -> PUBLISH
	// engine R: a packet announced as readable whose connection was closed
	// before the bytes went in
	rxlost := map[[2]int]bool{}
	for i := range ix.tr {
		if ix.tr[i].Kind == "rxlost" {
			rxlost[[2]int{ix.tr[i].Conn, ix.tr[i].N}] = true
		}
	}
	for _, i := range ix.rx {
		if i >= ix.end() {
			break
		}
		r := &ix.tr[i]
		if r.P == nil || rxlost[[2]int{r.Conn, r.N}] {
			continue
		}
		var msg *Pkt
		switch r.P.Type {
		case TPublish:
			if !strings.HasPrefix(r.P.Pay, "in") {
				continue
			}
			if r.P.QoS == 2 {
				if q2pending[r.Conn] == nil {
					q2pending[r.Conn] = map[uint16]*Pkt{}
				}
				q2pending[r.Conn][r.P.ID] = r.P
				continue
			}
			msg = r.P
		case TPubRel:
			m := q2pending[r.Conn][r.P.ID]
			if m == nil {
				continue // PUBLISH arrived on another connection: not covered by the statement
			}
			delete(q2pending[r.Conn], r.P.ID)
			msg = m
		default:
			continue
		}
		// acceptable handlers: the latest registration completed before the
		// delivery; registrations in the same step are acceptable either way
		// a connection of the hand-driven RetryClient that has been replaced by
		// SetClient while still open: what counts for it is the handler registered
		// before the replacement; later registrations may or may not reach it
		replAt := -1
		if sc.Cfg.Client == "retry" {
			n := 0
			for k, op := range sc.Ops {
				if op.Kind == "setclient" && ix.ops[k].inv >= 0 {
					n++
					if n == r.Conn+1 && ix.ops[k].inv < i {
						replAt = ix.ops[k].inv
					}
				}
			}
		}
		var acceptable []int
		latest, latestAt := -1, -1
		for _, g := range regs {
			sameStep := ix.tr[g.inv].T == r.T || ix.tr[g.ret].T == r.T
			if sameStep || (replAt >= 0 && g.ret > replAt && g.ret < i) {
				acceptable = append(acceptable, g.h)
				continue
			}
			if g.ret < i && g.ret > latestAt {
				latest, latestAt = g.h, g.ret
			}
		}
		if replAt >= 0 && latest < 0 {
			acceptable = append(acceptable, 0) // nothing was registered before the replacement
		}
		if latest >= 0 {
			// registrations that overlapped the latest one (concurrent Handle calls
			// of two goroutines) may have been applied after it
			var L *reg
			for k := range regs {
				if regs[k].ret == latestAt {
					L = &regs[k]
				}
			}
			for _, g := range regs {
				if L != nil && g.ret != L.ret && g.inv < L.ret && g.ret > L.inv && g.ret < i {
					acceptable = append(acceptable, g.h)
				}
			}
		}
		if latest < 0 && len(acceptable) == 0 {
			continue // no handler registered yet: nothing is owed
		}
		if latest >= 0 {
			acceptable = append(acceptable, latest)
		} else {
			acceptable = append(acceptable, 0)
		}
		nilOK := false
		for _, h := range acceptable {
			if h == 0 {
				nilOK = true
			}
		}
		// the hand-over
		got := -1
		for j := i; j < len(ix.tr) && j < ix.end(); j++ {
			q := &ix.tr[j]
			if q.Kind == "hin" && q.P.Pay == msg.Pay {
				got = int(q.V)
				break
			}
		}
		if got < 0 {
			if nilOK {
				continue
			}
			// a message the client acknowledged (or tried to) was read off the wire:
			// its hand-over comes first, whatever happened to the link since
			if msg.QoS > 0 {
				ackT := TPubAck
				if msg.QoS == 2 {
					ackT = TPubComp
				}
				acked := false
				for j := i; j < len(ix.tr) && j < ix.end(); j++ {
					q := &ix.tr[j]
					if (q.Kind == "tx" || q.Kind == "txfail") && q.Conn == r.Conn && q.P != nil && q.P.Type == ackT && q.P.ID == msg.ID {
						acked = true
						break
					}
				}
				if acked {
					add("handed-over", fmt.Sprintf("inbound message %q (q%d) on conn %d was acknowledged by the client but handed to no handler", msg.Pay, msg.QoS, r.Conn), map[string]string{"kind": "acked-not-handed"})
					continue
				}
			}
			// the connection may have been cut in the very step of the delivery
			cutSame := false
			for j := i; j < len(ix.tr) && ix.tr[j].T == r.T; j++ {
				q := &ix.tr[j]
				if q.Conn != r.Conn {
					continue
				}
				// the link ended in the very step of the delivery (cut, local close,
				// failed acknowledgement write): the reader may never have got to it
				if q.Kind == "cut" || q.Kind == "close" || (q.Kind == "write" && q.Err != "") {
					cutSame = true
				}
			}
			// ... or had ended for the client before (a failed write makes the reader
			// exit although the network only notices later)
			for j := 0; j < i; j++ {
				q := &ix.tr[j]
				if q.Conn == r.Conn && (q.Kind == "cut" || q.Kind == "close" || (q.Kind == "write" && q.Err != "")) {
					cutSame = true
					break
				}
			}
			if cutSame {
				continue
			}
			add("handed-over", fmt.Sprintf("inbound message %q (q%d) delivered on conn %d was not handed to any handler", msg.Pay, msg.QoS, r.Conn), map[string]string{"conn": connClass(r.Conn)})
			continue
		}
		ok := false
		for _, h := range acceptable {
			if h == got {
				ok = true
			}
		}
		if !ok && sc.Cfg.SlowHandlerUs > 0 {
			// with a slow handler a message can wait behind the one being served:
			// what counts is the registration at the moment of its hand-over
			hinAt := -1
			for j := i; j < len(ix.tr) && j < ix.end(); j++ {
				if q := &ix.tr[j]; q.Kind == "hin" && q.P.Pay == msg.Pay {
					hinAt = j
					break
				}
			}
			for _, g := range regs {
				if g.h == got && g.ret < hinAt && g.ret > i-1 {
					ok = true
				}
				if g.h == got && (ix.tr[g.inv].T == ix.tr[hinAt].T || ix.tr[g.ret].T == ix.tr[hinAt].T) {
					ok = true
				}
			}
		}
		if !ok {
			add("which", fmt.Sprintf("inbound message %q on conn %d went to handler %d, the registered one is %v", msg.Pay, r.Conn, got, acceptable), nil)
		}
	}
}

// checkC17Stable: with no registration in between, consecutive messages go to
// the same handler - also across a reconnect (two concurrent Handle calls may
// be applied in either order, but in one order).
func checkC17Stable(ix *index, add addFn) {
	type ho struct {
		idx, h, conn int
		pay          string
	}
	var hs []ho
	for i := range ix.tr {
		if i >= ix.end() {
			break
		}
		if r := &ix.tr[i]; r.Kind == "hin" && r.P != nil {
			hs = append(hs, ho{i, int(r.V), 0, r.P.Pay})
		}
	}
	for k := 1; k < len(hs); k++ {
		a, b := hs[k-1], hs[k]
		if a.h == b.h {
			continue
		}
		changed := false
		for j, op := range ix.sc.Ops {
			if op.Kind != "handle" {
				continue
			}
			o := ix.ops[j]
			// a registration that was still going on at, or made after, the first
			// hand-over may explain the change
			if o.inv >= 0 && (o.ret < 0 || o.ret > a.idx) && o.inv < b.idx {
				changed = true
			}
		}
		for i := a.idx; i < b.idx; i++ {
			if ix.tr[i].Kind == "reg" {
				changed = true
			}
		}
		if !changed {
			add("which", fmt.Sprintf("message %q went to handler %d and the next one, %q, to handler %d although no handler was registered in between", a.pay, a.h, b.pay, b.h), map[string]string{"kind": "unstable"})
			return
		}
	}
}

func connClass(k int) string {
	if k == 1 {
		return "first"
	}
	return "later"
}

// ---------------------------------------------------------------- C18

func checkC18(ix *index, add addFn) {
	sc := ix.sc
	R := sc.Cfg.ResponseTimeoutUs * 1000
	if R == 0 {
		return
	}
	horizonT := sc.HorizonUs * 1000
	conns := ix.connInfos()
	for i := range ix.tr {
		if i >= ix.end() {
			break
		}
		r := &ix.tr[i]
		if (r.Kind != "dropb2c" && r.Kind != "dropc2b") || r.P == nil || r.S == "silent" {
			continue
		}
		// the transmission whose answer is now missing
		txAt := -1
		switch r.Kind {
		case "dropc2b":
			switch {
			case r.P.Type == TPublish && r.P.QoS > 0, r.P.Type == TPubRel, r.P.Type == TSubscribe, r.P.Type == TUnsubscribe:
				for _, j := range ix.tx {
					if ix.tr[j].Conn == r.Conn && ix.tr[j].N == r.N {
						txAt = j
					}
				}
			}
		case "dropb2c":
			var reqType int
			switch r.P.Type {
			case TPubAck, TPubRec:
				reqType = TPublish
			case TPubComp:
				reqType = TPubRel
			case TSubAck:
				reqType = TSubscribe
			case TUnsubAck:
				reqType = TUnsubscribe
			default:
				continue
			}
			for _, j := range ix.tx {
				if j > i {
					break
				}
				q := &ix.tr[j]
				if q.Conn == r.Conn && q.P.Type == reqType && q.P.ID == r.P.ID {
					txAt = j
				}
			}
		}
		if txAt < 0 {
			continue
		}
		bound := ix.tr[txAt].T + R
		if bound >= horizonT || (ix.judge >= 0 && bound >= ix.tr[ix.judge].T) {
			continue
		}
		c := conns[r.Conn]
		if c == nil {
			continue
		}
		retrans := "first"
		if ix.tr[txAt].P.Dup || isRetransmission(ix, txAt) {
			retrans = "retransmission"
		}
		feat := map[string]string{"phase": retrans, "pkt": ix.tr[txAt].P.Name()}
		// by the bound the request must have been abandoned (reported), unless the
		// connection had ended anyway
		endedByBound := c.endAt >= 0 && ix.tr[c.endAt].T <= bound
		told := false
		for j := txAt; j < len(ix.tr) && ix.tr[j].T <= bound; j++ {
			if ix.tr[j].Kind == "onerror" && hasCls(ix.tr[j].Cls, "reqtimeout") {
				told = true
			}
		}
		if !endedByBound && !told {
			add("abandons", fmt.Sprintf("conn %d: answer to %s (tx at t=%dns, %s) was dropped; %dns later (response timeout) no RequestTimeoutError was reported and the connection is still open", r.Conn, ix.tr[txAt].P, ix.tr[txAt].T, retrans, R), feat)
			continue
		}
		// and the silent connection must be closed eventually
		if c.endAt < 0 && ix.complete {
			add("stuck", fmt.Sprintf("conn %d: answer to %s was dropped (%s); the connection was still open when the run was judged", r.Conn, ix.tr[txAt].P, retrans), feat)
		}
	}
	// kept + redials: the request is finally acknowledged (C01's rule)
	checkC01(ix, func(rule, detail string, feat map[string]string) {
		add("kept", detail, feat)
	})
}

// isRetransmission: the same request content was transmitted before on an
// earlier connection.
func isRetransmission(ix *index, txAt int) bool {
	r := &ix.tr[txAt]
	for _, j := range ix.tx {
		if j >= txAt {
			break
		}
		q := &ix.tr[j]
		if q.Conn == r.Conn || q.P.Type != r.P.Type {
			continue
		}
		switch r.P.Type {
		case TPublish:
			if tokenOf(q.P.Pay) == tokenOf(r.P.Pay) {
				return true
			}
		case TPubRel:
			if q.P.ID == r.P.ID {
				return true
			}
		case TSubscribe:
			if subsKey(q.P.Subs) == subsKey(r.P.Subs) {
				return true
			}
		case TUnsubscribe:
			if strings.Join(q.P.Topics, ",") == strings.Join(r.P.Topics, ",") {
				return true
			}
		}
	}
	return false
}
