package sim

import (
	"fmt"
	"os"
	"testing"
)

func TestSmoke(t *testing.T) {
	if os.Getenv("VERIF_SMOKE") == "" {
		t.Skip()
	}
	sc := &Scenario{
		Family: "reconn", Prop: "C02",
		Cfg: Config{Client: "reconnect", ClientID: "cli", ReconnBaseUs: 1000, ReconnMaxUs: 8000,
			LatC2BUs: 100, LatB2CUs: 100, DialLatUs: 50, BrokerMethod: "A"},
		Ops: []Op{
			{AtUs: 0, Actor: 0, Kind: "connect"},
			{AtUs: 1000, Actor: 1, Kind: "publish", QoS: 2, Topic: "t", Token: "m1"},
			{AtUs: 1010, Actor: 1, Kind: "subscribe", Subs: []SubReq{{"a", 1}}},
		},
		Faults:    []Fault{{Kind: "cutAfter", Conn: 1, N: 1}, {Kind: "cutAfter", Conn: 2, N: 1}},
		HorizonUs: 50000, EndUs: 200000,
	}
	res := RunScenario(t, sc)
	for _, r := range res.Trace {
		fmt.Println(r.Human())
	}
	fmt.Printf("hash=%x steps=%d events=%d cap=%q harness=%q probes=%v fired=%v\n", res.Hash, res.Steps, res.Events, res.CapHit, res.HarnessErr, res.Probes, res.Fired)
}
