package sim

import (
	"fmt"
	"math/rand/v2"
)

// Rng is the only source of choices; it is used before the bubble starts.
type Rng struct {
	*rand.Rand
	matrixCell int // C11: enumerated cell to generate (-1 = random)
}

// NewRng derives the generator of run i of a family from the batch seed.
func NewRng(seed uint64, family string, i uint64) *Rng {
	h := uint64(1469598103934665603)
	for _, b := range []byte(family) {
		h ^= uint64(b)
		h *= 1099511628211
	}
	return &Rng{Rand: rand.New(rand.NewPCG(seed^h, i*0x9E3779B97F4A7C15+h)), matrixCell: -1}
}

func (r *Rng) chance(p float64) bool { return r.Float64() < p }
func (r *Rng) between(lo, hi int64) int64 {
	if hi <= lo {
		return lo
	}
	return lo + r.Int64N(hi-lo+1)
}
func (r *Rng) pick(xs ...string) string { return xs[r.IntN(len(xs))] }
func (r *Rng) pickI(xs ...int64) int64  { return xs[r.IntN(len(xs))] }

// weighted picks an index with the given weights.
func (r *Rng) weighted(ws ...int) int {
	t := 0
	for _, w := range ws {
		t += w
	}
	x := r.IntN(t)
	for i, w := range ws {
		if x < w {
			return i
		}
		x -= w
	}
	return len(ws) - 1
}

// RaceSeedBit marks batches generated for engine R.
const RaceSeedBit = uint64(1) << 62

var filters = []string{"a", "a/+", "b"}
var topics = []string{"a", "a/x", "b", "c"}

// Generate builds the scenario of run i for property prop.
func Generate(prop string, seed uint64, i uint64) *Scenario {
	fam := FamilyOf(prop, seed, i)
	r := NewRng(seed, prop+"/"+fam, i)
	if prop == "C11" && i < uint64(len(C11Matrix())) {
		r.matrixCell = int(i) // the first runs of every batch are the complete matrix
	}
	var sc *Scenario
	switch fam {
	case "reconn":
		sc = genReconn(r, prop)
	case "retrymanual":
		sc = genRetryManual(r, prop)
	case "base":
		sc = genBase(r, prop)
	case "keepalive":
		sc = genKeepAlive(r, prop)
	case "idcycle":
		sc = genIDCycle(r, prop)
	case "race":
		sc = genRace(r, prop)
	default:
		panic("unknown family " + fam)
	}
	sc.Family = fam
	sc.Prop = prop
	sc.Seed = seed
	return sc
}

// FamilyOf chooses the scenario family for a property (deterministic in i).
func FamilyOf(prop string, seed, i uint64) string {
	if seed&RaceSeedBit != 0 {
		return "race"
	}
	if prop == "C15" && i%8 == 7 && i%40000 != 39999 {
		return "reconn" // caller-chosen identifiers through the retrying client
	}
	if prop == "C15" && i%40000 == 39999 {
		return "idcycle" // one request held while 65 540 more are acknowledged one by one
	}
	switch prop {
	case "C10":
		// engine S contributes the framing rule over every family
		return []string{"reconn", "base", "reconn", "retrymanual"}[i%4]
	case "C06":
		if i%8 == 7 {
			return "reconn" // SUBACK return codes (failure, downgrade) meeting re-subscription
		}
		return "base"
	case "C11":
		if i >= uint64(len(C11Matrix())) && i%5 == 4 {
			// the reconnecting client as a whole: its Connect / Disconnect with
			// contexts, and "nothing blocks forever" under cuts and parked sites
			return "reconn"
		}
		return "base"
	case "C04", "C07", "C15", "C20":
		return "base"
	case "C16":
		if i%3 == 0 {
			return "base"
		}
		return "reconn"
	case "C13":
		if i%2 == 0 {
			return "keepalive"
		}
		return "reconn"
	case "C19":
		if i%4 == 3 {
			return "reconn"
		}
		if i%16 == 5 {
			return "retrymanual" // errors returned by RetryClient.Connect itself (refused CONNACK)
		}
		if i%16 == 9 {
			return "keepalive" // which sentinel KeepAlive's error carries (ErrPingTimeout vs. the context's error)
		}
		return "base"
	case "C12":
		if i%3 == 0 {
			return "base"
		}
		if i%7 == 1 {
			return "retrymanual"
		}
		return "reconn"
	case "C01", "C03", "C08", "C17":
		if i%5 == 4 {
			return "retrymanual"
		}
		return "reconn"
	}
	return "reconn"
}

func spacedInitIDs(r *Rng, n int) []uint32 {
	// distinct blocks per connection so that a message retransmitted on a later
	// connection cannot collide with an identifier freshly chosen there (that
	// cross-connection collision is outside every statement; see DESIGN).
	base := uint32(r.IntN(16)) * 4096
	switch r.IntN(4) {
	case 0:
		base = 0xFFF0 // first connection wraps around
	case 1:
		base = 0
	}
	out := make([]uint32, n)
	for k := 0; k < n; k++ {
		out[k] = (base + uint32(k)*4096) & 0xFFFF
	}
	return out
}

// genReconn: ReconnectClient over SimDialer with cuts, refusals, dial errors.
func genReconn(r *Rng, prop string) *Scenario {
	sc := &Scenario{}
	cfg := &sc.Cfg
	cfg.Client = "reconnect"
	cfg.ClientID = "cid"
	cfg.LatC2BUs = r.between(20, 300)
	cfg.LatB2CUs = r.between(20, 300)
	cfg.DialLatUs = r.between(10, 200)
	cfg.ReconnBaseUs = r.pickI(500, 1000, 2000, 3000)
	cfg.ReconnMaxUs = cfg.ReconnBaseUs * r.pickI(2, 3, 4, 5, 6, 7, 8, 11, 13, 16, 24, 1) / 2 // also maxima that are no power-of-two multiple of the base, and one below the base
	cfg.BrokerMethod = r.pick("A", "B")
	cfg.InitIDs = spacedInitIDs(r, 12)
	cfg.AutoPubRel = true
	cfg.CleanSession = r.chance(0.3)
	if r.chance(0.3) {
		cfg.Frag = []int{int(r.between(1, 3))}
	}
	if r.chance(0.25) {
		cfg.JitterUs = []int64{0, r.between(0, 150), r.between(0, 50)}
	}
	keepalive := r.chance(0.3)
	if keepalive {
		cfg.PingIntervalUs = r.pickI(3000, 5000, 8000, 20000)
		cfg.KeepAliveSec = uint16(r.between(1, 60))
		if r.chance(0.5) {
			cfg.TimeoutUs = r.pickI(1500, 2500, 4000)
		}
	} else if r.chance(0.3) {
		cfg.TimeoutUs = r.pickI(1500, 2500, 4000)
	}
	if r.chance(0.2) {
		cfg.User, cfg.Pass = "u", "p"
	}
	if r.chance(0.12) {
		cfg.ProtoLevel3 = true // MQTT 3.1: same flows, CONNECT announces protocol level 3
	}
	if r.chance(0.2) {
		cfg.WillTopic, cfg.WillPay, cfg.WillQoS, cfg.WillRetain = "w", "bye", byte(r.IntN(3)), r.chance(0.5)
	}

	faultFree := r.chance(0.1)
	connectAt := int64(0)
	if r.chance(0.25) {
		connectAt = r.between(100, 3000) // requests submitted before Connect
	}
	nreq := int(r.between(1, 10))
	qosW := []int{2, 4, 4}
	kindW := []int{6, 2, 2} // publish, subscribe, unsubscribe
	var handleOps, inbound bool
	dropKinds := false

	switch prop {
	case "C02":
		cfg.CleanSession = false
		qosW = []int{1, 1, 8}
		kindW = []int{8, 1, 1}
		nreq = int(r.between(1, 6))
	case "C03":
		cfg.DirectQoS0 = false
		nreq = int(r.between(2, 12))
		if r.chance(0.25) {
			cfg.ResponseTimeoutUs = r.pickI(2000, 3000, 5000)
		}
		cfg.AlwaysResub = r.chance(0.3) // re-subscriptions compete with queued requests for the wire
	case "C08":
		kindW = []int{2, 5, 4}
		nreq = int(r.between(1, 8))
		cfg.AlwaysResub = r.chance(0.35)
		if r.chance(0.2) {
			// a broker that grants less than was asked for (the table compared is
			// the one of *requested* QoS)
			for i := 0; i < 3; i++ {
				cfg.GrantQoS = append(cfg.GrantQoS, byte(r.IntN(2)))
			}
		}
	case "C06":
		// what the broker answers to SUBSCRIBE is data from the peer too: failure
		// (0x80) and downgraded return codes, then a lost session / re-subscription
		kindW = []int{2, 6, 2}
		nreq = int(r.between(1, 8))
		cfg.AlwaysResub = r.chance(0.35)
		cfg.CleanSession = r.chance(0.6)
		for i := 0; i < 4; i++ {
			cfg.GrantQoS = append(cfg.GrantQoS, []byte{0, 1, 2, 0x80}[r.IntN(4)])
		}
	case "C17":
		handleOps, inbound = true, true
		nreq = int(r.between(0, 4))
	case "C18":
		cfg.ResponseTimeoutUs = r.pickI(2000, 3000, 5000)
		dropKinds = true
		nreq = int(r.between(1, 5))
		if keepalive {
			// keep-alive must not end the connection first
			cfg.PingIntervalUs = 20000
			cfg.TimeoutUs = 15000
		} else {
			cfg.TimeoutUs = 0
		}
		faultFree = false
	case "C19":
		// an expired response timeout must be identifiable as RequestTimeoutError
		cfg.ResponseTimeoutUs = r.pickI(2000, 3000, 5000)
		dropKinds = true
		cfg.TimeoutUs = 0
		if keepalive {
			cfg.PingIntervalUs = 20000
			cfg.TimeoutUs = 15000
		}
		faultFree = false
	case "C16", "C13":
		cfg.PingIntervalUs = r.pickI(3000, 5000, 8000)
		cfg.KeepAliveSec = 1
		if r.chance(0.3) {
			cfg.KeepAliveSec = 0 // pings by WithPingInterval alone, no keep-alive announced in CONNECT
		}
		cfg.TimeoutUs = r.pickI(1500, 2500, 4000)
		if r.chance(0.3) {
			cfg.TimeoutUs = 0 // default: equals the ping interval
		}
	}
	if prop == "C13" && r.chance(0.25) {
		// single-writer variant: no application requests, the peer answers every
		// PINGREQ before the Write call returns
		cfg.EarlyReply = true
		nreq = 0
		cfg.Frag, cfg.JitterUs = nil, nil
		faultFree = true
	}
	if prop != "C18" && r.chance(0.15) {
		cfg.ResponseTimeoutUs = r.pickI(2000, 3000, 5000)
	}
	if prop == "C01" || prop == "C12" {
		cfg.DirectQoS0 = r.chance(0.2)
	}
	if prop == "C01" || prop == "C18" || prop == "C02" {
		cfg.OnErrorReenters = r.chance(0.15)
	}
	earlyPub := false
	if (prop == "C01" || prop == "C02" || prop == "C12" || prop == "C03" || prop == "C08") && r.chance(0.1) {
		// single-writer variant with requests (nothing inbound, no keep-alive,
		// every write made by the task goroutine), and the broker's answer is
		// readable before Transport.Write returns, so the reader dispatches
		// PUBACK / PUBREC / PUBCOMP / SUBACK / UNSUBACK before the requester
		// waits for it
		earlyPub = true
		cfg.EarlyReply = true
		cfg.Frag, cfg.JitterUs = nil, nil
		cfg.PingIntervalUs, cfg.KeepAliveSec = 0, 0
		if cfg.TimeoutUs == 0 && r.chance(0.5) {
			cfg.TimeoutUs = r.pickI(1500, 2500, 4000)
		}
		cfg.DirectQoS0, cfg.OnErrorReenters = false, false
		if prop == "C02" || prop == "C12" {
			kindW = []int{1, 0, 0}
		}
	}

	sc.Ops = append(sc.Ops, Op{AtUs: connectAt, Actor: 0, Kind: "connect"})
	t := int64(0)
	span := r.pickI(3000, 10000, 30000)
	tok := 0
	for i := 0; i < nreq; i++ {
		t += r.between(0, span/int64(nreq+1))
		if r.chance(0.3) {
			t += 1 // bursts
		}
		op := Op{AtUs: t, Actor: 1}
		switch r.weighted(kindW...) {
		case 0:
			tok++
			op.Kind = "publish"
			op.QoS = byte(r.weighted(qosW...))
			op.Topic = topics[r.IntN(len(topics))]
			op.Token = fmt.Sprintf("m%d", tok)
			op.Retain = r.chance(0.2)
			op.DupIn = r.chance(0.08) // a reused / forwarded message struct
			if prop == "C15" && op.QoS > 0 && r.chance(0.5) {
				op.PresetID = uint16(r.between(50000, 65000)) // the caller's own identifier
			}
			if prop == "C01" && op.QoS > 0 && r.chance(0.15) {
				// the caller's own identifier, unique per message and half a block
				// away from the identifiers any connection chooses itself
				if id := uint16((cfg.InitIDs[0] + 2048 + uint32(tok)) & 0xFFFF); id != 0 {
					op.PresetID = id
				}
			}
		case 1:
			op.Kind = "subscribe"
			n := 1
			if r.chance(0.3) {
				n = int(r.between(2, 3))
			}
			for j := 0; j < n; j++ {
				op.Subs = append(op.Subs, SubReq{filters[r.IntN(len(filters))], byte(r.IntN(3))})
			}
		case 2:
			op.Kind = "unsubscribe"
			n := 1
			if r.chance(0.3) {
				n = 2
			}
			for j := 0; j < n; j++ {
				op.Topics = append(op.Topics, filters[r.IntN(len(filters))])
			}
		}
		sc.Ops = append(sc.Ops, op)
	}
	if handleOps {
		nh := int(r.between(1, 3))
		for i := 0; i < nh; i++ {
			sc.Ops = append(sc.Ops, Op{AtUs: r.between(0, span), Actor: 2, Kind: "handle", Handler: i + 1})
		}
		if r.chance(0.5) {
			sc.Ops = append(sc.Ops, Op{AtUs: 0, Actor: 2, Kind: "handle", Handler: 9})
		}
		if r.chance(0.2) {
			// a handler that replaces itself (by handler 6) from inside the callback
			sc.Ops = append(sc.Ops, Op{AtUs: r.between(0, span), Actor: 2, Kind: "handle", Handler: 5})
		}
	}
	lastOp := t
	if connectAt > lastOp {
		lastOp = connectAt
	}

	// faults
	nf := 0
	if !faultFree {
		nf = 1 + r.weighted(5, 4, 2, 1)
	}
	maxBackoff := cfg.ReconnMaxUs
	for i := 0; i < nf; i++ {
		f := Fault{}
		k := 1 + r.weighted(6, 4, 2, 1, 1)
		f.Conn = k
		f.Reset = r.chance(0.3)
		var w []int
		//          cutBefore cutAfter cutAfterResp cutAt writeErr connackRefuse connackNever dialErr dialStall sessionLoss dropB2C dropC2B silentFrom
		switch prop {
		case "C02":
			w = []int{5, 6, 4, 1, 1, 1, 0, 1, 0, 0, 0, 0, 0}
		case "C08":
			w = []int{4, 4, 3, 1, 1, 1, 0, 1, 0, 6, 0, 0, 0}
		case "C09":
			w = []int{2, 2, 2, 2, 1, 4, 2, 5, 2, 0, 0, 0, 1}
		case "C18":
			w = []int{1, 1, 0, 0, 0, 0, 0, 0, 0, 0, 8, 4, 1}
		case "C19":
			w = []int{1, 1, 0, 0, 0, 3, 0, 2, 0, 0, 8, 4, 1}
		case "C13":
			w = []int{1, 1, 1, 1, 1, 1, 0, 1, 0, 0, 0, 0, 8}
		case "C16":
			w = []int{3, 3, 3, 3, 1, 3, 1, 1, 0, 0, 0, 0, 3}
		default:
			w = []int{5, 5, 3, 2, 2, 2, 1, 2, 1, 1, 0, 0, 0}
		}
		if prop == "C11" {
			w[10], w[12] = 2, 1 // an acknowledgement that never comes / a peer going silent, while calls are made
		}
		if prop == "C03" && cfg.ResponseTimeoutUs != 0 {
			w[10], w[11] = 4, 2 // acknowledgements that do not come in time on a link that stays up
		}
		if cfg.TimeoutUs == 0 {
			w[6] = 0 // connackNever needs a connect timeout
		}
		if !dropKinds && cfg.ResponseTimeoutUs == 0 && cfg.PingIntervalUs == 0 && prop != "C11" {
			w[10], w[11], w[12] = 0, 0, 0
		}
		if cfg.PingIntervalUs == 0 && prop != "C18" && prop != "C19" && prop != "C11" {
			w[12] = 0
		}
		kinds := []string{"cutBefore", "cutAfter", "cutAfterResp", "cutAt", "writeErr", "connackRefuse", "connackNever", "dialErr", "dialStall", "sessionLoss", "dropB2C", "dropC2B", "silentFrom"}
		f.Kind = kinds[r.weighted(w...)]
		switch f.Kind {
		case "cutBefore", "cutAfter", "dropC2B":
			f.N = int(r.between(0, int64(nreq)+2))
			if r.chance(0.5) {
				f.N = int(r.between(1, 3)) // retransmissions come first on a new connection
			}
			if f.Kind == "dropC2B" && f.N == 0 {
				f.N = 1 // a lost CONNECT is connackNever's job (needs a connect timeout)
			}
		case "cutAfterResp", "dropB2C":
			f.N = int(r.between(0, int64(nreq)+2))
			if f.Kind == "dropB2C" && f.N == 0 {
				f.N = 1 // dropping the CONNACK is connackNever's job
			}
		case "writeErr":
			f.N = int(r.between(0, int64(nreq)+2))
			f.Prefix = int(r.between(0, 6))
			f.Code = byte(r.IntN(2)) // 1: the transport's error wraps io.EOF
			if (prop == "C11" || prop == "C09" || prop == "C13" || prop == "C16") && r.chance(0.4) {
				f.Code = 2 // writes fail, the read side never reports anything
			}
		case "cutAt", "silentFrom":
			f.AtUs = r.between(0, lastOp+2*maxBackoff)
		case "connackRefuse":
			f.Code = []byte{1, 2, 3, 4, 5, 1, 2, 3, 4, 5, 6, 0x80, 0x84, 0xFF}[r.IntN(14)]
			if r.chance(0.3) {
				f.Prefix = 1 // the peer refuses but does not close
			}
		}
		sc.Faults = append(sc.Faults, f)
	}
	// consecutive faults aimed at the retransmission of what the first one hit
	if nf > 0 && r.chance(0.35) {
		f0 := sc.Faults[0]
		if f0.Kind == "cutBefore" || f0.Kind == "cutAfter" || f0.Kind == "cutAfterResp" {
			k := f0.Conn
			for j := 0; j < int(r.between(1, 2)); j++ {
				k++
				sc.Faults = append(sc.Faults, Fault{Kind: r.pick("cutBefore", "cutAfter", "cutAfterResp"), Conn: k, N: int(r.between(1, 3)), Reset: r.chance(0.3)})
			}
		}
	}
	if ((prop == "C08" || prop == "C06") && r.chance(0.5)) || (prop == "C03" && r.chance(0.3)) {
		sc.Faults = append(sc.Faults, Fault{Kind: "sessionLoss", Conn: int(r.between(2, 4))})
	}

	if inbound {
		// inbound messages right after each CONNACK and at random times
		n := int(r.between(1, 5))
		for i := 0; i < n; i++ {
			q := byte(r.IntN(3))
			o := Out{Conn: int(r.between(1, 4)), Kind: "pkt", Pkt: &Pkt{Type: TPublish, Topic: topics[r.IntN(len(topics))], QoS: q, Pay: fmt.Sprintf("in%d", i)}}
			if q > 0 {
				o.Pkt.ID = uint16(100 + i)
				o.Pkt.Dup = r.chance(0.3) // the broker resends what the previous connection left unfinished
			}
			switch r.IntN(3) {
			case 0:
				o.AfterConnack, o.Glue = true, true
			case 1:
				o.AfterConnack = true
				o.DelayUs = r.between(0, 300)
			default:
				o.AtUs = r.between(0, lastOp+maxBackoff)
			}
			sc.Script = append(sc.Script, o)
		}
	}

	// Disconnect / cancellation for lifecycle properties
	if prop == "C09" || prop == "C16" || prop == "C11" {
		if r.chance(0.6) {
			at := r.between(0, lastOp+3*maxBackoff)
			op := Op{AtUs: at, Actor: 3, Kind: "disconnect"}
			if r.chance(0.5) {
				op.CtxTimeoutUs = r.between(100, 5000)
			}
			sc.Ops = append(sc.Ops, op)
		} else if r.chance(0.4) {
			if r.chance(0.5) {
				sc.Ops = append(sc.Ops, Op{AtUs: r.between(0, 4*maxBackoff), Actor: -1, Kind: "cancel", Target: 0})
			} else {
				sc.Ops[0].CtxTimeoutUs = r.between(50, 4*maxBackoff)
			}
		}
		if prop == "C16" && r.chance(0.3) {
			sc.Ops = append(sc.Ops, Op{AtUs: r.between(0, lastOp+maxBackoff), Actor: -1, Kind: "close"})
		}
	}

	if prop == "C19" && r.chance(0.4) {
		// Connect gives up (cancel / deadline) after attempts that were refused
		// or could not be dialled
		sc.Faults = append(sc.Faults, Fault{Kind: r.pick("connackRefuse", "connackRefuse", "dialErr"), Conn: 1, Code: byte(r.between(1, 5))})
		if r.chance(0.5) {
			sc.Faults = append(sc.Faults, Fault{Kind: r.pick("connackRefuse", "dialErr"), Conn: 2, Code: byte(r.between(1, 5))})
		}
		if r.chance(0.5) {
			sc.Ops = append(sc.Ops, Op{AtUs: connectAt + r.between(200, 4*maxBackoff), Actor: -1, Kind: "cancel", Target: 0})
		} else {
			sc.Ops[0].CtxTimeoutUs = r.between(200, 4*maxBackoff)
		}
	}
	// the usual `ctx, cancel := ...; defer cancel()` around Connect: the context
	// is cancelled some time after Connect returned; the loop must not care
	if r.chance(0.3) {
		hasCancel := false
		for _, op := range sc.Ops {
			if op.Kind == "cancel" {
				hasCancel = true
			}
		}
		if !hasCancel && sc.Ops[0].CtxTimeoutUs == 0 {
			sc.Ops = append(sc.Ops, Op{AtUs: connectAt + 3*(cfg.LatC2BUs+cfg.LatB2CUs+cfg.DialLatUs) + r.between(0, lastOp+maxBackoff), Actor: -1, Kind: "cancel", Target: 0, Token: "late"})
		}
	}
	// Disconnect aimed into the redial of connection 2 (dial parked / CONNECT
	// unanswered or refused), after connection 1 was lost at a known time
	if (prop == "C09" || prop == "C11" || prop == "C16") && r.chance(0.15) {
		cutT := connectAt + 2*(cfg.LatC2BUs+cfg.LatB2CUs+cfg.DialLatUs) + r.between(100, 2000)
		sc.Faults = []Fault{{Kind: "cutAt", Conn: 1, AtUs: cutT}}
		switch r.IntN(3) {
		case 0:
			sc.Faults = append(sc.Faults, Fault{Kind: "connackRefuse", Conn: 2, Code: byte(r.between(1, 5))})
		case 1:
			if cfg.TimeoutUs > 0 {
				sc.Faults = append(sc.Faults, Fault{Kind: "connackNever", Conn: 2})
			}
		}
		var ops []Op
		for _, op := range sc.Ops {
			if op.Kind != "disconnect" && op.Kind != "cancel" && op.Kind != "close" {
				ops = append(ops, op)
			}
		}
		sc.Ops = ops
		at := cutT + cfg.ReconnBaseUs + r.between(0, cfg.DialLatUs+cfg.LatC2BUs+cfg.LatB2CUs)
		dop := Op{AtUs: at, Actor: 3, Kind: "disconnect"}
		if r.chance(0.3) {
			dop.CtxTimeoutUs = r.between(100, 5000)
		}
		sc.Ops = append(sc.Ops, dop)
	}

	// buggify: park a random subset of the H2 sites (only where the oracles are
	// liveness-at-judgement or ordering rules; C11/C13/C18 time their oracles to
	// the fake instant of a cause and stay yield-free)
	switch prop {
	case "C01", "C02", "C03", "C08", "C09", "C11", "C12", "C16", "C17":
		if !earlyPub && r.chance(0.25) {
			sites := []string{"app.onError", "app.onError", "app.connStateActive", "app.transportClose", "reconn.afterDial", "reconn.afterSetClient", "reconn.afterConnect", "reconn.keepAliveFailed", "reconn.connLost", "reconn.disconnectSeen", "retry.afterTask", "base.afterServe", "base.beforeClosedState", "base.afterConnAck", "base.afterConnAck", "pub.afterPubRec"}
			cfg.Yields = map[string]int64{}
			for i := 0; i < int(r.between(1, 3)); i++ {
				cfg.Yields[sites[r.IntN(len(sites))]] = r.pickI(10, 100, 500, 2000)
			}
		}
	}

	if earlyPub && (prop == "C02" || prop == "C12" || prop == "C01") && r.chance(0.3) {
		// aimed: the network ends a connection in the very instant in which a
		// request is made on it: with an early-reply peer the whole exchange up to
		// the final acknowledgement and the end of the connection reach the client
		// together (this is what showed F20 in the thorough tier)
		var cand []int64
		for _, op := range sc.Ops {
			if op.Kind == "publish" && op.QoS > 0 {
				cand = append(cand, op.AtUs)
			}
		}
		if len(cand) > 0 {
			sc.Faults = append(sc.Faults, Fault{Kind: "cutAt", Conn: 1, AtUs: cand[r.IntN(len(cand))]})
		}
	}
	if prop == "C09" && r.chance(0.1) {
		// an application Ping that is never answered (no deadline of its own) while
		// Disconnect is called: Disconnect returns all the same
		at := connectAt + 3*(cfg.LatC2BUs+cfg.LatB2CUs+cfg.DialLatUs) + r.between(500, 3000)
		sc.Faults = append(sc.Faults, Fault{Kind: "silentFrom", Conn: 1, AtUs: at})
		sc.Ops = append(sc.Ops, Op{AtUs: at + r.between(10, 300), Actor: 7, Kind: "ping"})
		hasDisc := false
		for _, op := range sc.Ops {
			if op.Kind == "disconnect" {
				hasDisc = true
			}
		}
		if !hasDisc {
			sc.Ops = append(sc.Ops, Op{AtUs: at + r.between(400, 2000), Actor: 3, Kind: "disconnect"})
		}
	}
	if prop == "C11" && r.chance(0.3) {
		// Ping through the reconnecting client, with a deadline, while other calls are made
		for i := 0; i < int(r.between(1, 2)); i++ {
			sc.Ops = append(sc.Ops, Op{AtUs: connectAt + r.between(500, lastOp+maxBackoff+5000), Actor: 7 + i, Kind: "ping", CtxTimeoutUs: r.between(200, 3000)})
		}
	}
	if prop == "C13" && !cfg.EarlyReply && r.chance(0.4) {
		// the application pings as well, with a context that ends before the
		// answer can arrive: an abandoned ping whose late PINGRESP must not be
		// mistaken for the answer to the next keep-alive ping
		rt := cfg.LatC2BUs + cfg.LatB2CUs
		for i := 0; i < int(r.between(1, 3)); i++ {
			at := connectAt + 3*(rt+cfg.DialLatUs) + r.between(0, lastOp+maxBackoff+20000)
			sc.Ops = append(sc.Ops, Op{AtUs: at, Actor: 7 + i, Kind: "ping", CtxTimeoutUs: r.between(1, rt-1)})
			if r.chance(0.3) {
				// ... or one whose context is already cancelled when Ping is called
				sc.Ops[len(sc.Ops)-1].CtxTimeoutUs = 0
				sc.Ops = append(sc.Ops, Op{AtUs: at - 1, Actor: -1, Kind: "cancel", Target: len(sc.Ops) - 1})
			}
		}
	}
	if prop == "C13" && !cfg.EarlyReply && r.chance(0.25) {
		cfg.Yields = map[string]int64{"app.transportClose": r.pickI(10, 100, 500)}
	}
	if prop == "C13" && !cfg.EarlyReply && r.chance(0.1) {
		// a client that keeps sending: QoS 0 publishes more often than half the
		// ping interval for the whole run (outbound traffic is no sign of life of
		// the peer)
		step := cfg.PingIntervalUs / 3
		end := lastOp + maxBackoff + 20000
		for f := range sc.Faults {
			if sc.Faults[f].Kind == "silentFrom" && sc.Faults[f].AtUs+3*cfg.PingIntervalUs+cfg.TimeoutUs > end {
				end = sc.Faults[f].AtUs + 3*cfg.PingIntervalUs + cfg.TimeoutUs
			}
		}
		n := 0
		for at := connectAt + step; at < end && n < 150; at += step {
			n++
			sc.Ops = append(sc.Ops, Op{AtUs: at, Actor: 9, Kind: "publish", QoS: 0, Topic: "a", Token: fmt.Sprintf("k%d", n)})
		}
		if end > lastOp {
			lastOp = end
		}
	}
	if prop == "C13" && !cfg.EarlyReply && r.chance(0.12) {
		// aimed: an application Ping abandoned by its context, its late PINGRESP
		// arriving while the next keep-alive ping is outstanding, and the peer
		// going silent right after that: the keep-alive ping is the first one
		// left unanswered and its timeout must close the connection
		rt := cfg.LatC2BUs + cfg.LatB2CUs
		cfg.Frag, cfg.JitterUs, cfg.Yields = nil, nil, nil
		active := connectAt + cfg.DialLatUs + rt
		tB := active + r.between(1, 4)*cfg.PingIntervalUs
		tA := tB - rt/2
		sc.Ops = sc.Ops[:1]
		sc.Ops = append(sc.Ops, Op{AtUs: tA, Actor: 7, Kind: "ping", CtxTimeoutUs: rt / 4})
		sc.Faults = []Fault{{Kind: "silentFrom", Conn: 1, AtUs: tA + rt + rt/8}}
		lastOp = tA
	}

	if prop == "C13" && !cfg.EarlyReply && r.chance(0.06) {
		// aimed: a half-dead link on an otherwise quiet connection: the write of
		// a keep-alive PINGREQ fails at once, the read side stays silent. The
		// peer is as silent as can be; only the keep-alive can notice
		cfg.Frag, cfg.JitterUs, cfg.Yields = nil, nil, nil
		sc.Ops = sc.Ops[:1]
		sc.Script = nil
		k := int(r.between(1, 2))
		sc.Faults = nil
		if k == 2 {
			sc.Faults = append(sc.Faults, Fault{Kind: "cutAt", Conn: 1, AtUs: connectAt + cfg.DialLatUs + cfg.LatC2BUs + cfg.LatB2CUs + r.between(10, 2*cfg.PingIntervalUs)})
		}
		// write 0 of a connection is CONNECT; the keep-alive's pings follow
		sc.Faults = append(sc.Faults, Fault{Kind: "writeErr", Conn: k, N: int(r.between(1, 3)), Prefix: int(r.between(0, 1)), Code: 2})
		lastOp = connectAt + 8*cfg.PingIntervalUs
	}

	if prop == "C13" && !cfg.EarlyReply && r.chance(0.08) {
		// aimed: a peer that stops answering pings but keeps talking: from some
		// moment on PINGREQ/PINGRESP are swallowed while QoS 0 PUBLISHes keep
		// arriving more often than the ping timeout. Inbound traffic of another
		// kind is not the response to a ping: the first unanswered keep-alive
		// ping must end the connection with ErrPingTimeout and a new one follows
		cfg.Frag, cfg.JitterUs, cfg.Yields, cfg.Coalesce = nil, nil, nil, false
		cfg.DeafToPings = true
		rt := cfg.LatC2BUs + cfg.LatB2CUs
		active := connectAt + cfg.DialLatUs + rt
		at := active + r.between(1, 3*cfg.PingIntervalUs)
		sc.Ops = sc.Ops[:1]
		sc.Ops[0].CtxTimeoutUs = 0
		sc.Faults = []Fault{{Kind: "silentFrom", Conn: 1, AtUs: at}}
		sc.Script = nil
		to := cfg.TimeoutUs
		if to == 0 {
			to = cfg.PingIntervalUs // the client's default
		}
		step := to / 3
		if step < 1 {
			step = 1
		}
		if step > cfg.PingIntervalUs/3 && cfg.PingIntervalUs >= 3 {
			step = cfg.PingIntervalUs / 3
		}
		end := at + 4*cfg.PingIntervalUs + 2*to
		n := 0
		for t := active + 7; t < end && n < 200; t += step {
			n++
			sc.Script = append(sc.Script, Out{Conn: 1, AtUs: t, Kind: "pkt", Pkt: &Pkt{Type: TPublish, Topic: "a", QoS: 0, Pay: fmt.Sprintf("chat%d", n)}})
		}
		lastOp = end
	}
	if prop == "C09" && r.chance(0.03) {
		// aimed: a long run of consecutive failures (dial errors and refusals),
		// enough for any arithmetic on the back-off to leave its range, then success
		cfg.Yields, cfg.EarlyReply = nil, false
		cfg.ReconnBaseUs = r.pickI(1, 10, 1000)
		cfg.ReconnMaxUs = cfg.ReconnBaseUs * r.pickI(2, 3, 8)
		maxBackoff = cfg.ReconnMaxUs
		sc.Ops = sc.Ops[:1]
		sc.Ops[0].CtxTimeoutUs = 0
		sc.Faults = nil
		nfail := int(r.between(50, 80))
		for k := 1; k <= nfail; k++ {
			if r.chance(0.8) {
				sc.Faults = append(sc.Faults, Fault{Kind: "dialErr", Conn: k})
			} else {
				sc.Faults = append(sc.Faults, Fault{Kind: "connackRefuse", Conn: k, Code: byte(r.between(1, 5))})
			}
		}
		lastOp = connectAt + int64(nfail)*(cfg.ReconnMaxUs+cfg.DialLatUs+cfg.LatC2BUs+cfg.LatB2CUs+50)
	}
	if (prop == "C09" || prop == "C11") && r.chance(0.004) {
		// aimed: no back-off at all (base 0, or a maximum of 0 so that the doubled
		// wait is clamped to nothing): an outage of a few failed attempts, and in
		// half of the runs a Disconnect in the middle of it
		cfg.Yields, cfg.EarlyReply = nil, false
		cfg.PingIntervalUs, cfg.KeepAliveSec = 0, 0
		cfg.ReconnBaseUs, cfg.ReconnMaxUs = r.pickI(0, 0, 500), 0
		maxBackoff = 500
		sc.Ops = sc.Ops[:1]
		sc.Ops[0].CtxTimeoutUs = 0
		sc.Script = nil
		cutT := connectAt + cfg.DialLatUs + cfg.LatC2BUs + cfg.LatB2CUs + r.between(100, 2000)
		sc.Faults = []Fault{{Kind: "cutAt", Conn: 1, AtUs: cutT}}
		nfail := int(r.between(3, 12))
		for k := 2; k < 2+nfail; k++ {
			sc.Faults = append(sc.Faults, Fault{Kind: "dialErr", Conn: k})
		}
		lastOp = cutT + int64(nfail+2)*(cfg.DialLatUs+10) + 500
		if r.chance(0.5) {
			sc.Ops = append(sc.Ops, Op{AtUs: cutT + r.between(1, int64(nfail)*cfg.DialLatUs), Actor: 3, Kind: "disconnect"})
		}
	}
	if prop == "C09" && r.chance(0.04) {
		// aimed: on a healthy, quiet connection the application disconnects through
		// the BaseClient it got from Client(), below the reconnecting wrapper: a
		// connection that ended on purpose (Err() == nil) is not replaced
		cfg.Yields, cfg.EarlyReply = nil, false
		sc.Faults = nil
		var ops []Op
		for _, op := range sc.Ops {
			if op.Kind == "connect" || op.Kind == "publish" || op.Kind == "subscribe" || op.Kind == "unsubscribe" {
				ops = append(ops, op)
			}
		}
		sc.Ops = ops
		sc.Ops[0].CtxTimeoutUs = 0
		at := lastOp + 3*(cfg.LatC2BUs+cfg.LatB2CUs+cfg.DialLatUs) + r.between(2000, 6000)
		sc.Ops = append(sc.Ops, Op{AtUs: at, Actor: 3, Kind: "disconnect", Token: "base"})
		lastOp = at
	}
	if (prop == "C02" || prop == "C01" || prop == "C12" || prop == "C03") && r.chance(0.15) {
		// a broker that acknowledges twice
		for i := 0; i < int(r.between(1, 3)); i++ {
			sc.Faults = append(sc.Faults, Fault{Kind: "dupB2C", Conn: 1 + r.weighted(6, 3, 1), N: int(r.between(1, int64(nreq)+3))})
		}
	}
	if prop == "C12" && r.chance(0.05) {
		// aimed: the PUBREC of a QoS 2 publish is lost with connection 1; right
		// after the CONNACK of connection 2, before the client has retransmitted,
		// the broker sends that PUBREC (nobody waits for it there)
		cfg.Yields, cfg.EarlyReply, cfg.Frag, cfg.JitterUs = nil, false, nil, nil
		cfg.CleanSession, cfg.DirectQoS0, cfg.ResponseTimeoutUs = false, false, 0
		cfg.PingIntervalUs, cfg.KeepAliveSec = 0, 0
		_, id := nextID(cfg.InitIDs[0])
		sc.Ops = []Op{{AtUs: 0, Actor: 0, Kind: "connect"}, {AtUs: 2000, Actor: 1, Kind: "publish", QoS: 2, Topic: "a", Token: "m1"}}
		sc.Faults = []Fault{{Kind: "cutAfter", Conn: 1, N: 1}}
		sc.Script = []Out{{Conn: 2, AfterConnack: true, Glue: r.chance(0.5), DelayUs: r.between(0, 20), Kind: "pkt", Pkt: &Pkt{Type: TPubRec, ID: id}}}
		lastOp = 2000
	}
	if (prop == "C18" || prop == "C01") && r.chance(0.2) {
		// the usual `defer cancel()` of the context a request was made with: it
		// ends some time after Publish / Subscribe / Unsubscribe returned, while
		// the request is still on its way
		n := len(sc.Ops)
		for i := 1; i < n; i++ {
			if k := sc.Ops[i].Kind; (k == "publish" || k == "subscribe" || k == "unsubscribe") && r.chance(0.5) {
				sc.Ops = append(sc.Ops, Op{AtUs: sc.Ops[i].AtUs + r.between(1, 1500), Actor: -1, Kind: "cancel", Target: i, Token: "late"})
			}
		}
	}
	if prop == "C08" && r.chance(0.06) {
		// aimed: the re-subscription requested for connection 2 (session lost) is
		// still waiting behind a parked task when connection 2 dies and connection
		// 3 (session present: the empty one connection 2 created) takes over
		cfg.CleanSession, cfg.AlwaysResub, cfg.EarlyReply = false, false, false
		cfg.PingIntervalUs, cfg.KeepAliveSec, cfg.ResponseTimeoutUs = 0, 0, 0
		cfg.Frag, cfg.JitterUs = nil, nil
		cfg.DirectQoS0, cfg.OnErrorReenters = false, false
		cfg.ReconnBaseUs, cfg.ReconnMaxUs = 500, 1000
		cfg.Yields = map[string]int64{"retry.afterTask": r.pickI(2000, 3000)}
		sc.Ops = []Op{{AtUs: 0, Actor: 0, Kind: "connect"}}
		nf := int(r.between(1, 3))
		for j := 0; j < nf; j++ {
			sc.Ops = append(sc.Ops, Op{AtUs: 1000 + int64(j)*10, Actor: 1, Kind: "subscribe", Subs: []SubReq{{filters[j%len(filters)], byte(r.IntN(3))}}})
		}
		cut1 := int64(1000 + nf*(2000+700) + 3000)
		sc.Ops = append(sc.Ops, Op{AtUs: cut1 + 100, Actor: 1, Kind: "publish", QoS: 1, Topic: "a", Token: "m1"})
		sc.Faults = []Fault{{Kind: "cutAt", Conn: 1, AtUs: cut1}, {Kind: "sessionLoss", Conn: 2}, {Kind: "cutAfterResp", Conn: 2, N: 0}}
		lastOp = cut1 + 100
		maxBackoff = cfg.ReconnMaxUs
	}
	if prop == "C18" && r.chance(0.05) {
		// aimed: the response timeout has fired and the application's OnError is
		// still running (the task goroutine has not finished with the request)
		// when the silent connection breaks and the next one is established
		cfg.CleanSession, cfg.AlwaysResub, cfg.EarlyReply = false, false, false
		cfg.PingIntervalUs, cfg.KeepAliveSec, cfg.TimeoutUs = 0, 0, 0
		cfg.ResponseTimeoutUs = 2000
		cfg.Frag, cfg.JitterUs = nil, nil
		cfg.DirectQoS0, cfg.OnErrorReenters = false, false
		cfg.ReconnBaseUs, cfg.ReconnMaxUs = 200, 400
		cfg.Yields = map[string]int64{"app.onError": r.pickI(3000, 5000)}
		op := Op{AtUs: 1000, Actor: 1, Kind: "publish", QoS: byte(1 + r.IntN(2)), Topic: "a", Token: "m1"}
		switch r.IntN(4) {
		case 0:
			op = Op{AtUs: 1000, Actor: 1, Kind: "subscribe", Subs: []SubReq{{filters[0], byte(r.IntN(3))}}}
		case 1:
			op = Op{AtUs: 1000, Actor: 1, Kind: "unsubscribe", Topics: []string{filters[0]}}
		}
		sc.Ops = []Op{{AtUs: 0, Actor: 0, Kind: "connect"}, op}
		sc.Script = nil
		// the timeout fires 2000 us after the request is started; the network
		// ends the silent connection a little later
		sc.Faults = []Fault{{Kind: "dropB2C", Conn: 1, N: 1}, {Kind: "cutAt", Conn: 1, AtUs: 3000 + r.between(100, 800), Reset: r.chance(0.5)}}
		lastOp = 1000
		maxBackoff = cfg.ReconnMaxUs
	}
	// horizon: after the last scenario event plus room for the faults to play out
	h := lastOp + 6*maxBackoff + 20000
	for _, f := range sc.Faults {
		if f.AtUs > h {
			h = f.AtUs + 1000
		}
	}
	sc.HorizonUs = h
	maxDur := maxBackoff
	for _, d := range []int64{cfg.TimeoutUs, cfg.ResponseTimeoutUs, cfg.PingIntervalUs} {
		if d > maxDur {
			maxDur = d
		}
	}
	sc.EndUs = h + 10*maxDur + 100*(cfg.LatC2BUs+cfg.LatB2CUs)
	for _, y := range cfg.Yields {
		// parked goroutines slow every task / reconnect down
		sc.EndUs += int64(len(sc.Ops)+6) * y * 3
	}
	return sc
}
