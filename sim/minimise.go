package sim

// Minimise shrinks a failing scenario while fails() keeps returning true
// (same oracle rule). Greedy one-at-a-time removal to a fixpoint, then
// simplification of what is left.
func Minimise(sc *Scenario, fails func(*Scenario) bool) *Scenario {
	cur := sc.Clone()
	if len(sc.Ops) > 300 {
		return cur // the id-cycle scenario: its length is the point
	}
	try := func(c *Scenario) bool {
		if !ValidScenario(c) {
			return false
		}
		if fails(c) {
			cur = c
			return true
		}
		return false
	}
	for round := 0; round < 6; round++ {
		progress := false
		// faults
		for i := len(cur.Faults) - 1; i >= 0; i-- {
			c := cur.Clone()
			c.Faults = append(c.Faults[:i], c.Faults[i+1:]...)
			if try(c) {
				progress = true
			}
		}
		// script
		for i := len(cur.Script) - 1; i >= 0; i-- {
			if i >= len(cur.Script) {
				continue
			}
			c := cur.Clone()
			c.Script = append(c.Script[:i], c.Script[i+1:]...)
			// held indices refer to broker state, not to script positions: keep
			if try(c) {
				progress = true
			}
		}
		// ops (remap Target references)
		for i := len(cur.Ops) - 1; i >= 0; i-- {
			if i >= len(cur.Ops) {
				continue
			}
			if cur.Ops[i].Kind == "connect" {
				nc := 0
				for _, o := range cur.Ops {
					if o.Kind == "connect" {
						nc++
					}
				}
				if nc == 1 {
					// a scenario without any Connect trivially "loses" everything: not a
					// smaller instance of the same violation
					continue
				}
			}
			c := removeOp(cur, i)
			if c != nil && try(c) {
				progress = true
			}
		}
		if !progress {
			break
		}
	}
	// simplifications
	simp := []func(c *Scenario) bool{
		func(c *Scenario) bool { ch := len(c.Cfg.Frag) > 0; c.Cfg.Frag = nil; return ch },
		func(c *Scenario) bool { ch := len(c.Cfg.JitterUs) > 0; c.Cfg.JitterUs = nil; return ch },
		func(c *Scenario) bool { ch := c.Cfg.Coalesce; c.Cfg.Coalesce = false; return ch },
		func(c *Scenario) bool {
			ch := c.Cfg.PingIntervalUs != 0 || c.Cfg.KeepAliveSec != 0
			c.Cfg.PingIntervalUs, c.Cfg.KeepAliveSec = 0, 0
			return ch
		},
		func(c *Scenario) bool { ch := c.Cfg.TimeoutUs != 0; c.Cfg.TimeoutUs = 0; return ch },
		func(c *Scenario) bool { ch := c.Cfg.ResponseTimeoutUs != 0; c.Cfg.ResponseTimeoutUs = 0; return ch },
		func(c *Scenario) bool {
			ch := c.Cfg.User != "" || c.Cfg.WillTopic != ""
			c.Cfg.User, c.Cfg.Pass, c.Cfg.WillTopic, c.Cfg.WillPay, c.Cfg.WillQoS, c.Cfg.WillRetain = "", "", "", "", 0, false
			return ch
		},
		func(c *Scenario) bool {
			if c.Cfg.Client != "base" {
				return false // distinct id blocks per connection are part of the fault space (see DESIGN: cross-connection id collision)
			}
			ch := len(c.Cfg.InitIDs) > 0
			c.Cfg.InitIDs = nil
			return ch
		},
		func(c *Scenario) bool { ch := len(c.Cfg.Yields) > 0; c.Cfg.Yields = nil; return ch },
		func(c *Scenario) bool { ch := c.Cfg.CleanSession; c.Cfg.CleanSession = false; return ch },
		func(c *Scenario) bool { ch := c.Cfg.AlwaysResub; c.Cfg.AlwaysResub = false; return ch },
		func(c *Scenario) bool { ch := c.Cfg.DirectQoS0; c.Cfg.DirectQoS0 = false; return ch },
		func(c *Scenario) bool { ch := c.Cfg.SlowHandlerUs != 0; c.Cfg.SlowHandlerUs = 0; return ch },
		func(c *Scenario) bool { ch := c.Cfg.BrokerMethod == "B"; c.Cfg.BrokerMethod = "A"; return ch },
		func(c *Scenario) bool {
			ch := false
			for i := range c.Faults {
				if c.Faults[i].Reset {
					c.Faults[i].Reset = false
					ch = true
				}
			}
			return ch
		},
	}
	for _, f := range simp {
		c := cur.Clone()
		if f(c) {
			try(c)
		}
	}
	// per-op simplifications
	for i := range cur.Ops {
		for _, f := range []func(o *Op) bool{
			func(o *Op) bool { ch := o.Retain; o.Retain = false; return ch },
			func(o *Op) bool { ch := o.PayLen != 0; o.PayLen = 0; return ch },
			func(o *Op) bool { ch := o.CtxTimeoutUs != 0; o.CtxTimeoutUs = 0; return ch },
			func(o *Op) bool {
				if o.Kind == "publish" && o.QoS == 2 {
					o.QoS = 1
					return true
				}
				return false
			},
			func(o *Op) bool {
				if o.Kind == "publish" && o.QoS == 1 {
					o.QoS = 0
					return true
				}
				return false
			},
			func(o *Op) bool {
				if len(o.Subs) > 1 {
					o.Subs = o.Subs[:1]
					return true
				}
				return false
			},
			func(o *Op) bool {
				if len(o.Topics) > 1 {
					o.Topics = o.Topics[:1]
					return true
				}
				return false
			},
		} {
			c := cur.Clone()
			if f(&c.Ops[i]) {
				try(c)
			}
		}
	}
	// coarser times
	for _, grid := range []int64{10000, 1000, 100} {
		c := cur.Clone()
		ch := false
		for i := range c.Ops {
			n := c.Ops[i].AtUs / grid * grid
			if n != c.Ops[i].AtUs {
				c.Ops[i].AtUs = n
				ch = true
			}
		}
		if ch && try(c) {
			break
		}
	}
	return cur
}

// removeOp drops op i and remaps references; returns nil if the result would
// be meaningless.
func removeOp(sc *Scenario, i int) *Scenario {
	c := sc.Clone()
	keep := make([]bool, len(c.Ops))
	for j, o := range c.Ops {
		keep[j] = j != i
		if refersTo(o) && o.Target == i {
			keep[j] = false // loses its subject
		}
	}
	// a second pass for references to ops dropped in the first
	for changed := true; changed; {
		changed = false
		for j, o := range c.Ops {
			if keep[j] && refersTo(o) && o.Target >= 0 && o.Target < len(keep) && !keep[o.Target] {
				keep[j] = false
				changed = true
			}
		}
	}
	remap := make([]int, len(c.Ops))
	n := 0
	for j := range c.Ops {
		remap[j] = n
		if keep[j] {
			n++
		}
	}
	var ops []Op
	for j, o := range c.Ops {
		if !keep[j] {
			continue
		}
		if refersTo(o) {
			o.Target = remap[o.Target]
		}
		ops = append(ops, o)
	}
	c.Ops = ops
	return c
}

// ValidScenario keeps minimisation inside the fault space the generators
// draw from: black-hole faults need something that obliges progress.
func ValidScenario(sc *Scenario) bool {
	for _, f := range sc.Faults {
		switch f.Kind {
		case "silentFrom", "dropB2C", "dropC2B":
			if f.Kind != "silentFrom" && f.N == 0 && sc.Cfg.TimeoutUs == 0 {
				return false // losing CONNECT/CONNACK needs a connect timeout
			}
			if sc.Cfg.Client == "reconnect" || sc.Cfg.Client == "retry" {
				if sc.Cfg.PingIntervalUs == 0 && sc.Cfg.ResponseTimeoutUs == 0 {
					return false
				}
				if f.Kind == "silentFrom" && sc.Cfg.PingIntervalUs == 0 && sc.Prop != "C18" && sc.Prop != "C19" {
					return false
				}
			}
		case "connackNever":
			if sc.Cfg.Client == "reconnect" && sc.Cfg.TimeoutUs == 0 {
				return false
			}
		}
	}
	return true
}

// refersTo: ops whose Target names another op.
func refersTo(o Op) bool {
	return o.Kind == "cancel" || o.Kind == "retryhandle" || o.Kind == "afterconnect"
}
