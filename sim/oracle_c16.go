package sim

import (
	"fmt"
	"strings"
)

// checkC16: ConnState, Err() and Done() tell the truth, per BaseClient.
func checkC16(ix *index, add addFn) {
	sc := ix.sc
	if sc.Family == "race" {
		checkC16Race(ix, add)
		return
	}
	if sc.Cfg.Client == "base" {
		// "the error that ended it": what C19 says about the identity of Err()
		// after a peer close / a malformed packet, read as a statement about the
		// error reported with Closed
		checkC19(ix, func(rule, detail string, feat map[string]string) {
			if rule == "sentinel" && strings.HasPrefix(detail, "conn ") {
				add("closed", detail, map[string]string{"kind": "cause", "via": "C19"})
			}
		})
	}
	conns := ix.connInfos()
	// which connection was current when Disconnect was invoked
	discConn := -1
	if ix.discAt >= 0 {
		if sc.Cfg.Client == "base" {
			discConn = sc.Ops[ix.tr[ix.discAt].Op-1].Cli + 1
		} else {
			for i := ix.discAt; i >= 0; i-- {
				r := &ix.tr[i]
				if r.Kind == "dialdone" && r.Err == "" {
					discConn = r.Conn
					break
				}
			}
		}
	}
	// the connection that actually reports Disconnected after the call is the one
	// it was carried out on (between dial and SetClient the "current" one is
	// still the previous client)
	if ix.discAt >= 0 {
		for i := ix.discAt; i < len(ix.tr) && i < ix.end(); i++ {
			if ix.tr[i].Kind == "state" && ix.tr[i].S == "Disconnected" {
				discConn = ix.tr[i].Conn
				break
			}
		}
	}
	discRet := -1
	if ix.discAt >= 0 {
		op := ix.tr[ix.discAt].Op - 1
		discRet = ix.ops[op].ret
		if discRet >= ix.end() || ix.ops[op].err != "" {
			notConn := false
			if sc.Cfg.Client == "base" && discRet >= 0 && discRet < ix.end() && hasCls(ix.ops[op].cls, "notconn") {
				// "not connected" from a plain client on whose transport Connect had been
				// called (and failed, the transport still being open): the call was made
				// and nothing else was the matter, so it counts as carried out
				for k2, op2 := range sc.Ops {
					if op2.Kind == "connect" && op2.Cli == sc.Ops[op].Cli && ix.ops[k2].ret >= 0 && ix.ops[k2].ret < ix.discAt {
						notConn = true
					}
				}
			}
			if !notConn {
				discRet = -1 // returned only during teardown, or gave up with an error
			}
		}
	}
	for k, c := range conns {
		if c.dialDone >= 0 && c.dialErr != "" {
			continue
		}
		// was Connect started on it?
		connectCalled := false
		firstActivityT := int64(0)
		for i := range ix.tr {
			if i >= ix.end() {
				break
			}
			r := &ix.tr[i]
			if r.Conn == k && (r.Kind == "write" || r.Kind == "state") {
				connectCalled = true
				firstActivityT = r.T
				break
			}
		}
		if !connectCalled {
			continue
		}
		disc := -1
		if k == discConn {
			disc = ix.discAt
		}
		end := c.endAt
		var states []int
		for i := range ix.tr {
			if i >= ix.end() {
				break
			}
			if ix.tr[i].Kind == "state" && ix.tr[i].Conn == k {
				states = append(states, i)
			}
		}
		nActive, nClosed, nDisc := 0, 0, 0
		closedAt, discStateAt := -1, -1
		closedErr := ""
		for _, i := range states {
			r := &ix.tr[i]
			switch r.S {
			case "Active":
				nActive++
				if !c.accepted || c.connack < 0 || c.connack > i {
					add("active", fmt.Sprintf("conn %d: Active reported without an accepting CONNACK before it", k), nil)
				}
			case "Closed":
				nClosed++
				if closedAt < 0 {
					closedAt, closedErr = i, r.Err
				}
				if r.Err == "" {
					add("closed", fmt.Sprintf("conn %d: Closed reported with a nil error", k), nil)
				}
				if !r.B {
					add("closed", fmt.Sprintf("conn %d: Err() differed from the error passed to the state callback (%q)", k, r.Err), nil)
				}
			case "Disconnected":
				nDisc++
				if discStateAt < 0 {
					discStateAt = i
				}
			}
		}
		if nActive > 1 {
			add("active", fmt.Sprintf("conn %d: Active reported %d times", k, nActive), nil)
		}
		if nClosed > 1 {
			add("closed", fmt.Sprintf("conn %d: Closed reported %d times", k, nClosed), nil)
		}
		if nDisc > 1 {
			add("disconnected", fmt.Sprintf("conn %d: Disconnected reported %d times", k, nDisc), nil)
		}
		if discStateAt >= 0 && closedAt > discStateAt {
			add("disconnected", fmt.Sprintf("conn %d: Closed reported after Disconnected", k), nil)
		}
		if nDisc > 0 && disc < 0 {
			add("disconnected", fmt.Sprintf("conn %d: Disconnected reported although Disconnect was not called on it", k), nil)
		}
		// overlap of an ending cause with Disconnect: either report is legal
		// the connection ended before the disconnect was carried out on it (for the
		// reconnecting client Disconnect() only queues the request)
		overlap := disc >= 0 && end >= 0 && (discStateAt < 0 || end < discStateAt)
		if overlap && sc.Cfg.Client == "base" && discStateAt < 0 && discRet >= 0 && end > discRet {
			// no overlap at all: Disconnect on the plain client had returned, having
			// reported nothing, before anything else ended the connection
			overlap = false
		}
		if disc < 0 && end >= 0 && ix.complete {
			if nClosed != 1 {
				add("closed", fmt.Sprintf("conn %d ended (%s) without Disconnect: Closed reported %d times", k, c.endKind, nClosed), nil)
			} else if ix.tr[closedAt].T != ix.tr[end].T && len(sc.Cfg.Yields) == 0 && !(ix.tr[end].T < firstActivityT && ix.tr[closedAt].T == firstActivityT) {
				// (a transport that died before Connect was called on it is reported when
				// Connect is called)
				add("closed", fmt.Sprintf("conn %d ended at t=%dns, Closed reported at t=%dns", k, ix.tr[end].T, ix.tr[closedAt].T), nil)
			}
		}
		blackhole := false
		for _, f := range sc.Faults {
			if f.Kind == "silentFrom" || f.Kind == "dropB2C" || f.Kind == "dropC2B" {
				blackhole = true // a request may be stuck in front of the DISCONNECT for ever
			}
		}
		if disc >= 0 && !overlap && ix.complete && discRet >= 0 {
			if nDisc != 1 && !blackhole {
				add("disconnected", fmt.Sprintf("conn %d: Disconnect was called, Disconnected reported %d times", k, nDisc), nil)
			}
			if nClosed > 0 {
				add("disconnected", fmt.Sprintf("conn %d: Disconnect was called on a healthy connection but Closed was reported", k), nil)
			}
		}
		// samples
		lastDone := false
		for i := range ix.tr {
			if i > ix.end() {
				break
			}
			r := &ix.tr[i]
			if r.Kind != "sample" || r.Conn != k {
				continue
			}
			lastDone = r.B
			ended := (end >= 0 && end <= i) || (disc >= 0 && disc <= i)
			if r.B && !ended {
				add("done", fmt.Sprintf("conn %d: Done() closed at t=%dns although nothing had ended the connection", k, r.T), nil)
			}
			if r.Err != "" && !ended {
				add("err-nil", fmt.Sprintf("conn %d: Err() = %q at t=%dns while the connection was healthy", k, r.Err, r.T), map[string]string{"when": "healthy"})
			}
			if r.Err != "" && disc >= 0 && !overlap && (end < 0 || end > disc) {
				add("err-nil", fmt.Sprintf("conn %d: Err() = %q after a graceful Disconnect", k, r.Err), map[string]string{"when": "after-disconnect"})
			}
			if closedAt >= 0 && i > closedAt && disc < 0 && r.Err != closedErr {
				add("closed", fmt.Sprintf("conn %d: Err() = %q later differs from the error reported with Closed (%q)", k, r.Err, closedErr), nil)
			}
		}
		// what Err() says must agree with what the last terminal callback said, and
		// a closed Done() without Disconnect means an error is on record
		lastTermErr, lastTermAt := "", -1
		for _, i := range states {
			if ix.tr[i].S == "Closed" || ix.tr[i].S == "Disconnected" {
				lastTermErr, lastTermAt = ix.tr[i].Err, i
			}
		}
		for i := range ix.tr {
			if i > ix.end() {
				break
			}
			r := &ix.tr[i]
			if r.Kind != "sample" || r.Conn != k {
				continue
			}
			if lastTermAt >= 0 && i > lastTermAt && lastTermErr == "" && r.Err != "" {
				add("err-consistent", fmt.Sprintf("conn %d: the state callback reported the end of the connection with a nil error, later Err() = %q", k, r.Err), nil)
				break
			}
			if r.B && r.Err == "" && disc < 0 {
				add("done-err", fmt.Sprintf("conn %d: Done() is closed at t=%dns, Disconnect was not called, and Err() is still nil", k, r.T), nil)
				break
			}
		}
		if ix.complete && end >= 0 && !lastDone {
			add("done", fmt.Sprintf("conn %d ended but Done() was not closed when the run was judged", k), nil)
		}
		// a connection that reported Disconnected has been disconnected: its
		// transport is closed when the run is judged
		if ix.complete && discStateAt >= 0 && end < 0 {
			add("disconnected", fmt.Sprintf("conn %d: Disconnected was reported at t=%dns but the transport is still open when the run is judged", k, ix.tr[discStateAt].T), map[string]string{"kind": "still-open"})
		}
	}
}

// closeIsDisconnect: the close at index end is the transport close performed
// by Disconnect itself (same step, after the DISCONNECT packet).
func closeIsDisconnect(ix *index, k, disc, end int) bool {
	for i := disc; i < end; i++ {
		r := &ix.tr[i]
		if r.Kind == "tx" && r.Conn == k && r.P.Type == TDisconnect {
			return true
		}
	}
	return false
}

// checkC16Race: engine R pass. Endings race under real parallelism, so nothing
// is demanded about the order of records; only what each callback said, how
// often, and what Err() / Done() say in the end.
func checkC16Race(ix *index, add addFn) {
	type cs struct {
		active, closed, disc int
		closedErr            string
		closedNil, discNil   bool
		staleCB              string // a callback whose error differed from Err() at that moment
		final                *Rec
		discCalled           bool
	}
	per := map[int]*cs{}
	get := func(k int) *cs {
		if per[k] == nil {
			per[k] = &cs{}
		}
		return per[k]
	}
	for k, op := range ix.sc.Ops {
		if op.Kind == "disconnect" && ix.ops[k].inv >= 0 {
			get(op.Cli + 1).discCalled = true
		}
	}
	for i := range ix.tr {
		r := &ix.tr[i]
		switch r.Kind {
		case "state":
			c := get(r.Conn)
			switch r.S {
			case "Active":
				c.active++
			case "Closed":
				c.closed++
				c.closedErr = r.Err
				c.closedNil = r.Err == ""
			case "Disconnected":
				c.disc++
				c.discNil = r.Err == ""
			}
			if !r.B && (r.S == "Closed" || r.S == "Disconnected") {
				c.staleCB = fmt.Sprintf("%s(%q)", r.S, r.Err)
			}
		case "finalerr":
			get(r.Conn).final = r
		case "doneerrnil":
			if c := get(r.Conn); !c.discCalled {
				add("done-err", fmt.Sprintf("conn %d: a goroutine waiting on Done() found Err() == nil the moment Done() was closed (Disconnect was never called)", r.Conn), nil)
			}
		}
	}
	for k, c := range per {
		if c.active > 1 || c.closed > 1 || c.disc > 1 {
			add("once", fmt.Sprintf("conn %d: Active x%d, Closed x%d, Disconnected x%d", k, c.active, c.closed, c.disc), nil)
		}
		if c.closed > 0 && c.closedNil {
			add("closed", fmt.Sprintf("conn %d: Closed reported with a nil error", k), nil)
		}
		if c.disc > 0 && !c.discCalled {
			add("disconnected", fmt.Sprintf("conn %d: Disconnected reported although Disconnect was never called on it", k), nil)
		}
		if c.staleCB != "" {
			add("err-consistent", fmt.Sprintf("conn %d: the state callback reported %s while Err() said something else at that moment", k, c.staleCB), nil)
		}
		if c.final == nil {
			continue
		}
		if c.closed > 0 && !c.closedNil && c.final.Err != c.closedErr {
			add("err-consistent", fmt.Sprintf("conn %d: Closed reported with %q, Err() is %q in the end", k, c.closedErr, c.final.Err), nil)
		}
		if c.disc > 0 && c.discNil && c.closed == 0 && c.final.Err != "" {
			add("err-nil", fmt.Sprintf("conn %d: Disconnected(nil) was reported, Closed never, and Err() is %q in the end", k, c.final.Err), nil)
		}
		if (c.closed > 0 || c.disc > 0) && ix.complete && !c.final.B && c.active > 0 {
			add("done", fmt.Sprintf("conn %d: the connection has ended (Closed x%d, Disconnected x%d) but Done() is not closed when the run is judged", k, c.closed, c.disc), nil)
		}
	}
}
