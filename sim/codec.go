package sim

// Independent MQTT 3.1.1 codec used by the broker model and the oracles.
// It imports nothing from the library under test.

import (
	"bytes"
	"errors"
	"fmt"
	"strconv"
	"strings"
	"unicode/utf8"
)

// Packet types (high nibble of the first byte).
const (
	TConnect     = 1
	TConnAck     = 2
	TPublish     = 3
	TPubAck      = 4
	TPubRec      = 5
	TPubRel      = 6
	TPubComp     = 7
	TSubscribe   = 8
	TSubAck      = 9
	TUnsubscribe = 10
	TUnsubAck    = 11
	TPingReq     = 12
	TPingResp    = 13
	TDisconnect  = 14
)

var typeNames = [...]string{"T0", "CONNECT", "CONNACK", "PUBLISH", "PUBACK", "PUBREC", "PUBREL", "PUBCOMP",
	"SUBSCRIBE", "SUBACK", "UNSUBSCRIBE", "UNSUBACK", "PINGREQ", "PINGRESP", "DISCONNECT", "T15"}

// SubReq is one (filter, qos) pair of a SUBSCRIBE.
type SubReq struct {
	Filter string `json:"f"`
	QoS    byte   `json:"q"`
}

// Pkt is a decoded control packet.
type Pkt struct {
	Type   int    `json:"type"`
	Flags  byte   `json:"flags,omitempty"`
	ID     uint16 `json:"id,omitempty"`
	Topic  string `json:"topic,omitempty"`
	Pay    string `json:"pay,omitempty"` // payload as string (tokens are ASCII)
	QoS    byte   `json:"qos,omitempty"`
	Retain bool   `json:"retain,omitempty"`
	Dup    bool   `json:"dup,omitempty"`

	// CONNECT
	ClientID     string `json:"cid,omitempty"`
	CleanSession bool   `json:"clean,omitempty"`
	KeepAlive    uint16 `json:"ka,omitempty"`
	ProtoLevel   byte   `json:"lvl,omitempty"`
	HasWill      bool   `json:"haswill,omitempty"`
	WillTopic    string `json:"wtopic,omitempty"`
	WillPay      string `json:"wpay,omitempty"`
	WillQoS      byte   `json:"wqos,omitempty"`
	WillRetain   bool   `json:"wretain,omitempty"`
	HasUser      bool   `json:"hasuser,omitempty"`
	User         string `json:"user,omitempty"`
	HasPass      bool   `json:"haspass,omitempty"`
	Pass         string `json:"pass,omitempty"`

	// CONNACK
	SessionPresent bool `json:"sp,omitempty"`
	Code           byte `json:"code,omitempty"`

	Subs   []SubReq `json:"subs,omitempty"`
	Topics []string `json:"topics,omitempty"`
	Codes  []byte   `json:"codes,omitempty"`
}

func (p *Pkt) Name() string {
	if p.Type >= 0 && p.Type < len(typeNames) {
		return typeNames[p.Type]
	}
	return fmt.Sprintf("T%d", p.Type)
}

// String is a compact, deterministic rendering used in traces.
func (p *Pkt) String() string {
	switch p.Type {
	case TConnect:
		return fmt.Sprintf("CONNECT(cid=%q clean=%v ka=%d lvl=%d will=%v:%q:%q:q%d:r%v user=%v:%q pass=%v:%q)",
			p.ClientID, p.CleanSession, p.KeepAlive, p.ProtoLevel, p.HasWill, p.WillTopic, p.WillPay, p.WillQoS, p.WillRetain,
			p.HasUser, p.User, p.HasPass, p.Pass)
	case TConnAck:
		return fmt.Sprintf("CONNACK(sp=%v code=%d)", p.SessionPresent, p.Code)
	case TPublish:
		return fmt.Sprintf("PUBLISH(id=%d q%d dup=%v ret=%v %q %q)", p.ID, p.QoS, p.Dup, p.Retain, p.Topic, p.Pay)
	case TPubAck, TPubRec, TPubRel, TPubComp, TUnsubAck:
		return fmt.Sprintf("%s(id=%d)", p.Name(), p.ID)
	case TSubscribe:
		return fmt.Sprintf("SUBSCRIBE(id=%d %v)", p.ID, p.Subs)
	case TSubAck:
		return fmt.Sprintf("SUBACK(id=%d %v)", p.ID, p.Codes)
	case TUnsubscribe:
		return fmt.Sprintf("UNSUBSCRIBE(id=%d %q)", p.ID, p.Topics)
	}
	return p.Name()
}

var errShort = errors.New("codec: short packet")

// EncodeRemLen encodes a remaining length (minimal encoding).
func EncodeRemLen(n int) []byte {
	var out []byte
	for {
		b := byte(n % 128)
		n /= 128
		if n > 0 {
			b |= 0x80
		}
		out = append(out, b)
		if n == 0 {
			return out
		}
	}
}

// Frame tries to cut one whole packet off the front of buf. It returns
// the number of bytes consumed (0 = need more data) or an error if the fixed
// header can never become valid.
func Frame(buf []byte) (n int, first byte, body []byte, err error) {
	if len(buf) < 2 {
		return 0, 0, nil, nil
	}
	first = buf[0]
	l := 0
	mult := 1
	i := 1
	for {
		if i >= len(buf) {
			return 0, 0, nil, nil
		}
		b := buf[i]
		l += int(b&0x7f) * mult
		mult *= 128
		i++
		if b&0x80 == 0 {
			break
		}
		if i > 4 {
			return 0, 0, nil, errors.New("codec: remaining length longer than 4 bytes")
		}
	}
	// minimal encoding check
	if i-1 != len(EncodeRemLen(l)) {
		return 0, 0, nil, errors.New("codec: non-minimal remaining length")
	}
	if len(buf) < i+l {
		return 0, 0, nil, nil
	}
	return i + l, first, buf[i : i+l], nil
}

func getU16(b []byte) (uint16, []byte, error) {
	if len(b) < 2 {
		return 0, nil, errShort
	}
	return uint16(b[0])<<8 | uint16(b[1]), b[2:], nil
}

func getStr(b []byte) (string, []byte, error) {
	n, b, err := getU16(b)
	if err != nil {
		return "", nil, err
	}
	if len(b) < int(n) {
		return "", nil, errShort
	}
	s := b[:n]
	if !utf8.Valid(s) {
		return "", nil, errors.New("codec: invalid UTF-8")
	}
	for _, r := range string(s) {
		if r == 0 {
			return "", nil, errors.New("codec: U+0000 in string")
		}
	}
	return string(s), b[n:], nil
}

func getBin(b []byte) ([]byte, []byte, error) {
	n, b, err := getU16(b)
	if err != nil {
		return nil, nil, err
	}
	if len(b) < int(n) {
		return nil, nil, errShort
	}
	return b[:n], b[n:], nil
}

// DecodeC2B strictly decodes a client->broker packet.
func DecodeC2B(first byte, body []byte) (*Pkt, error) {
	p := &Pkt{Type: int(first >> 4), Flags: first & 0x0f}
	var err error
	wantFlags := func(f byte) error {
		if p.Flags != f {
			return fmt.Errorf("codec: %s with flags %#x, want %#x", p.Name(), p.Flags, f)
		}
		return nil
	}
	switch p.Type {
	case TConnect:
		if err = wantFlags(0); err != nil {
			return nil, err
		}
		var proto string
		b := body
		if proto, b, err = getStr(b); err != nil {
			return nil, err
		}
		if len(b) < 4 {
			return nil, errShort
		}
		p.ProtoLevel = b[0]
		if !((proto == "MQTT" && p.ProtoLevel == 4) || (proto == "MQTT" && p.ProtoLevel == 3) || (proto == "MQIsdp" && p.ProtoLevel == 3)) {
			return nil, fmt.Errorf("codec: protocol %q level %d", proto, p.ProtoLevel)
		}
		fl := b[1]
		if fl&1 != 0 {
			return nil, errors.New("codec: CONNECT reserved flag set")
		}
		p.CleanSession = fl&2 != 0
		p.HasWill = fl&4 != 0
		p.WillQoS = (fl >> 3) & 3
		p.WillRetain = fl&0x20 != 0
		p.HasPass = fl&0x40 != 0
		p.HasUser = fl&0x80 != 0
		if !p.HasWill && (p.WillQoS != 0 || p.WillRetain) {
			return nil, errors.New("codec: will qos/retain without will flag")
		}
		if p.WillQoS == 3 {
			return nil, errors.New("codec: will qos 3")
		}
		if p.HasPass && !p.HasUser {
			return nil, errors.New("codec: password without user name")
		}
		p.KeepAlive = uint16(b[2])<<8 | uint16(b[3])
		b = b[4:]
		if p.ClientID, b, err = getStr(b); err != nil {
			return nil, err
		}
		if p.HasWill {
			if p.WillTopic, b, err = getStr(b); err != nil {
				return nil, err
			}
			var w []byte
			if w, b, err = getBin(b); err != nil {
				return nil, err
			}
			p.WillPay = string(w)
		}
		if p.HasUser {
			if p.User, b, err = getStr(b); err != nil {
				return nil, err
			}
		}
		if p.HasPass {
			var w []byte
			if w, b, err = getBin(b); err != nil {
				return nil, err
			}
			p.Pass = string(w)
		}
		if len(b) != 0 {
			return nil, errors.New("codec: trailing bytes in CONNECT")
		}
	case TPublish:
		p.Dup = p.Flags&8 != 0
		p.QoS = (p.Flags >> 1) & 3
		p.Retain = p.Flags&1 != 0
		if p.QoS == 3 {
			return nil, errors.New("codec: PUBLISH qos 3")
		}
		if p.QoS == 0 && p.Dup {
			return nil, errors.New("codec: PUBLISH qos0 with DUP")
		}
		b := body
		if p.Topic, b, err = getStr(b); err != nil {
			return nil, err
		}
		if p.Topic == "" {
			return nil, errors.New("codec: empty topic")
		}
		for _, r := range p.Topic {
			if r == '+' || r == '#' {
				return nil, errors.New("codec: wildcard in topic name")
			}
		}
		if p.QoS > 0 {
			if p.ID, b, err = getU16(b); err != nil {
				return nil, err
			}
			if p.ID == 0 {
				return nil, errors.New("codec: PUBLISH id 0")
			}
		}
		p.Pay = string(b)
	case TPubAck, TPubRec, TPubComp, TPubRel:
		f := byte(0)
		if p.Type == TPubRel {
			f = 2
		}
		if err = wantFlags(f); err != nil {
			return nil, err
		}
		if len(body) != 2 {
			return nil, fmt.Errorf("codec: %s body length %d", p.Name(), len(body))
		}
		p.ID, _, _ = getU16(body)
		if p.ID == 0 {
			return nil, fmt.Errorf("codec: %s id 0", p.Name())
		}
	case TSubscribe:
		if err = wantFlags(2); err != nil {
			return nil, err
		}
		b := body
		if p.ID, b, err = getU16(b); err != nil {
			return nil, err
		}
		if p.ID == 0 {
			return nil, errors.New("codec: SUBSCRIBE id 0")
		}
		if len(b) == 0 {
			return nil, errors.New("codec: SUBSCRIBE without filters")
		}
		for len(b) > 0 {
			var f string
			if f, b, err = getStr(b); err != nil {
				return nil, err
			}
			if len(b) < 1 {
				return nil, errShort
			}
			if b[0] > 2 {
				return nil, errors.New("codec: SUBSCRIBE requested qos > 2")
			}
			p.Subs = append(p.Subs, SubReq{f, b[0]})
			b = b[1:]
		}
	case TUnsubscribe:
		if err = wantFlags(2); err != nil {
			return nil, err
		}
		b := body
		if p.ID, b, err = getU16(b); err != nil {
			return nil, err
		}
		if p.ID == 0 {
			return nil, errors.New("codec: UNSUBSCRIBE id 0")
		}
		if len(b) == 0 {
			return nil, errors.New("codec: UNSUBSCRIBE without filters")
		}
		for len(b) > 0 {
			var f string
			if f, b, err = getStr(b); err != nil {
				return nil, err
			}
			p.Topics = append(p.Topics, f)
		}
	case TPingReq, TDisconnect:
		if err = wantFlags(0); err != nil {
			return nil, err
		}
		if len(body) != 0 {
			return nil, fmt.Errorf("codec: %s with body", p.Name())
		}
	default:
		return nil, fmt.Errorf("codec: packet type %d from client", p.Type)
	}
	return p, nil
}

func putU16(b []byte, v uint16) []byte { return append(b, byte(v>>8), byte(v)) }
func putStr(b []byte, s string) []byte {
	b = putU16(b, uint16(len(s)))
	return append(b, s...)
}

func frame(first byte, body []byte) []byte {
	out := []byte{first}
	out = append(out, EncodeRemLen(len(body))...)
	return append(out, body...)
}

// EncodeB2C encodes a broker->client packet.
func EncodeB2C(p *Pkt) []byte {
	switch p.Type {
	case TConnAck:
		sp := byte(0)
		if p.SessionPresent {
			sp = 1
		}
		return frame(0x20, []byte{sp, p.Code})
	case TPublish:
		f := byte(0x30) | p.QoS<<1
		if p.Dup {
			f |= 8
		}
		if p.Retain {
			f |= 1
		}
		var b []byte
		b = putStr(b, p.Topic)
		if p.QoS > 0 {
			b = putU16(b, p.ID)
		}
		b = append(b, expandPay(p.Pay)...)
		return frame(f, b)
	case TPubAck:
		return frame(0x40, putU16(nil, p.ID))
	case TPubRec:
		return frame(0x50, putU16(nil, p.ID))
	case TPubRel:
		return frame(0x62, putU16(nil, p.ID))
	case TPubComp:
		return frame(0x70, putU16(nil, p.ID))
	case TSubAck:
		b := putU16(nil, p.ID)
		b = append(b, p.Codes...)
		return frame(0x90, b)
	case TUnsubAck:
		return frame(0xb0, putU16(nil, p.ID))
	case TPingResp:
		return frame(0xd0, nil)
	}
	panic("EncodeB2C: unsupported type")
}

// DecodeB2C leniently decodes a broker->client packet produced by EncodeB2C
// (used by oracles to look at what the harness itself sent).
func DecodeB2C(first byte, body []byte) *Pkt {
	p := &Pkt{Type: int(first >> 4), Flags: first & 0x0f}
	switch p.Type {
	case TConnAck:
		if len(body) == 2 {
			p.SessionPresent = body[0]&1 != 0
			p.Code = body[1]
		}
	case TPublish:
		p.Dup = p.Flags&8 != 0
		p.QoS = (p.Flags >> 1) & 3
		p.Retain = p.Flags&1 != 0
		t, b, err := getBin(body)
		if err != nil {
			return p
		}
		p.Topic = string(t)
		if p.QoS > 0 {
			p.ID, b, _ = getU16(b)
		}
		p.Pay = string(b)
	case TPubAck, TPubRec, TPubRel, TPubComp, TUnsubAck:
		p.ID, _, _ = getU16(body)
	case TSubAck:
		var b []byte
		p.ID, b, _ = getU16(body)
		p.Codes = append([]byte{}, b...)
	}
	return p
}

// FilterMatch is the harness's own MQTT 4.7 matcher (no '$' topics in workloads).
func FilterMatch(filter, topic string) bool {
	fl := splitLevels(filter)
	tl := splitLevels(topic)
	for i, f := range fl {
		if f == "#" {
			return true
		}
		if i >= len(tl) {
			return false
		}
		if f != "+" && f != tl[i] {
			return false
		}
	}
	return len(fl) == len(tl)
}

func splitLevels(s string) []string {
	var out []string
	start := 0
	for i := 0; i < len(s); i++ {
		if s[i] == '/' {
			out = append(out, s[start:i])
			start = i + 1
		}
	}
	return append(out, s[start:])
}

// Large payloads are written "token~N" in scenarios and traces: N bytes on the
// wire, "token." followed by padding.
func expandPay(pay string) []byte {
	i := strings.LastIndexByte(pay, '~')
	if i < 0 {
		return []byte(pay)
	}
	n, err := strconv.Atoi(pay[i+1:])
	if err != nil || n <= i+1 {
		return []byte(pay)
	}
	b := make([]byte, n)
	copy(b, pay[:i])
	b[i] = '.'
	for j := i + 1; j < n; j++ {
		b[j] = 'p'
	}
	return b
}

func shortPay(b []byte) string {
	if len(b) <= 65536 {
		return string(b)
	}
	i := bytes.IndexByte(b, '.')
	if i < 0 || i > 64 {
		i = 0
	}
	return string(b[:i]) + "~" + strconv.Itoa(len(b))
}
