#!/bin/sh
# Re-runs every kept seeded change against the quick check of the property it breaks.
# usage: seeded_regress.sh [VERIF_SEED]   (applies each patch to /repo - or to the checkout named by VERIF_REPO - runs, undoes)
seed=${1:-1}
cd "$(dirname "$(readlink -f "$0")")"
REPO=${VERIF_REPO:-/repo}
for d in seeded/*/; do
  id=$(basename $d); prop=$(python3 -c "import json;print(json.load(open('$d/meta.json'))['breaks'])")
  git -C $REPO checkout -q HEAD -- .
  if ! git -C $REPO apply $PWD/$d/patch.diff 2>/dev/null; then
    if ! git -C $REPO apply --3way $PWD/$d/patch.diff 2>/dev/null; then git -C $REPO checkout -q HEAD -- .; echo "$id $prop PATCH-DOES-NOT-APPLY"; continue; fi
  fi
  git -C $REPO reset -q
  out=$(VERIF_NO_EVIDENCE=1 VERIF_SEED=$seed ./check $prop quick 2>&1)
  n=$(echo "$out" | grep -c "^VIOLATION"); mach=$(echo "$out" | grep -c "MACHINERY")
  rules=$(echo "$out" | grep -oE "^  C[0-9]+/[a-z0-9-]+" | sort -u | tr -d ' ' | tr '\n' ' ')
  echo "$id $prop violations=$n machinery=$mach $rules"
  git -C $REPO checkout -q HEAD -- .
done
