#!/bin/sh
# Re-runs every kept seeded change against the quick check of the property it breaks.
# usage: seeded_regress.sh [VERIF_SEED]   (applies each patch to /repo, runs, undoes)
seed=${1:-1}
cd /verif
for d in seeded/*/; do
  id=$(basename $d); prop=$(python3 -c "import json;print(json.load(open('$d/meta.json'))['breaks'])")
  git -C /repo checkout -q HEAD -- .
  if ! git -C /repo apply $PWD/$d/patch.diff 2>/dev/null; then
    if ! git -C /repo apply --3way $PWD/$d/patch.diff 2>/dev/null; then git -C /repo checkout -q HEAD -- .; echo "$id $prop PATCH-DOES-NOT-APPLY"; continue; fi
  fi
  git -C /repo reset -q
  out=$(VERIF_SEED=$seed ./check $prop quick 2>&1)
  n=$(echo "$out" | grep -c "^VIOLATION")
  rules=$(echo "$out" | grep -oE "^  C[0-9]+/[a-z0-9-]+" | sort -u | tr -d ' ' | tr '\n' ' ')
  echo "$id $prop violations=$n $rules"
  git -C /repo checkout -q HEAD -- .
done
